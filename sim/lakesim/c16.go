package lakesim

import (
	"fmt"
	"sort"
	"strings"

	"github.com/brimdata/super/compiler"
	"verifsim/kernel"
)

// C16: pool-key pruning never changes a result.  Pools are built so that
// pruning bites (many small objects, many seek entries, duplicate boundary
// keys, null/missing/cross-type keys); every generated filter is run through
// the lake (object and seek-range pruners active) and compared with the same
// filter applied to the branch's values without any lake.

type c16Desc struct {
	seqDesc
	Filters []c16Filter `json:"filters"`
}

type c16Filter struct {
	Kind    string `json:"kind"` // query or delete-where
	Filter  string `json:"filter"`
	Objects int    `json:"objects_in_snapshot"`
	Read    int    `json:"objects_read"`
	Partial int    `json:"objects_read_partially"`
	Matched int    `json:"values_matched"`
}

func runC16(tape *kernel.Tape) *kernel.Outcome {
	return runInWorld(tape, "C16", func(w *World) *kernel.Violation { return c16Body(w) })
}

func c16Body(w *World) *kernel.Violation {
	sig := "C16"
	desc := &c16Desc{}
	r, v := c16Pool(w, sig, &desc.seqDesc)
	w.Out.Desc = desc
	if v != nil || r == nil {
		return v
	}
	e := r.E
	nf := w.Kn.Range(2, 10)
	for i := 0; i < nf; i++ {
		bname := "main"
		b := r.Br[bname]
		if len(b.Objs) == 0 {
			break
		}
		us := r.usOf(b.Objs)
		var recs []Rec
		for _, u := range us {
			recs = append(recs, e.Recs[u])
		}
		f := c16GenFilter(w.Wl, &r.PM.Spec, recs, r.KeyRange, e.NextU)
		sel, err := EvalWhere(e.Ctx, &r.PM.Spec, recs, f)
		if err != nil {
			continue // the reference evaluator rejects the filter
		}
		var want []int
		for _, u := range us {
			if sel[u] {
				want = append(want, u)
			}
		}
		fd := c16Filter{Filter: f, Objects: len(b.Objs), Matched: len(want)}
		if w.Wl.Chance(1, 5) {
			// delete-where through the same pruners
			fd.Kind = "delete-where"
			op := Op{Kind: "delete-where", Branch: bname, Pred: f}
			w.Disk.ResetDataReads()
			op, v := r.Do(w.Wl, op, 200+i, false)
			fd.Read, fd.Partial = w.Disk.DataReadStats()
			desc.Filters = append(desc.Filters, fd)
			desc.Ops = append(desc.Ops, op)
			if v != nil {
				if strings.Contains(v.Signature, "content") || strings.Contains(v.Signature, "unexpected-error:delete-where") || strings.Contains(v.Signature, "delete-where-objects") {
					v.Signature = sig + ":pruned-differs:delete-where"
				}
				return v
			}
			continue
		}
		fd.Kind = "query"
		w.Disk.ResetDataReads()
		src := fmt.Sprintf("from %s | %s", r.PM.Spec.Name, f)
		vals, err := r.C.Query(e.Ctx, src)
		fd.Read, fd.Partial = w.Disk.DataReadStats()
		desc.Filters = append(desc.Filters, fd)
		if err != nil {
			return kernel.Violatef(sig+":query-error", "%q failed: %v (the same filter evaluates without error on the branch's values outside the lake)", src, err)
		}
		got := Us(vals)
		if ok, diff := sameMultiset(got, want); !ok {
			return kernel.Violatef(sig+":pruned-differs:query", "%q through the lake (pruners active; %d of %d objects read, %d partially) differs from a full scan followed by the same filter: %s%s",
				src, fd.Read, fd.Objects, fd.Partial, diff, e.describeDiff(got, want))
		}
		if fd.Read < fd.Objects {
			w.Out.Probe("objects-pruned")
		}
		if fd.Partial > 0 {
			w.Out.Probe("seek-range-narrowed")
		}
		if len(want) > 0 && len(want) < len(us) {
			w.Out.Probe("filter-selective")
		}
		// Order: the filtered lake result must still be in pool-key order.
		rs := make([]Rec, len(got))
		for j, u := range got {
			rs[j] = e.Recs[u]
		}
		if v := checkOrder(rs, r.PM.Spec.Desc, sig+":filtered-scan-order", src); v != nil {
			return v
		}
	}
	w.Out.Nontrivial = len(desc.Filters) > 0
	return nil
}

// c16Pool creates a pool with many small objects and seek entries.
func c16Pool(w *World, sig string, desc *seqDesc) (*SeqRun, *kernel.Violation) {
	e := NewEnv(w)
	kn, wl := w.Kn, w.Wl
	par := []int{1, 2, 3, 8}[kn.Intn(4)]
	compiler.Parallelism = par
	spec := GenPoolSpec(kn, "p1")
	spec.Thresh = []int64{60, 1, 150, 400}[kn.Intn(4)]
	spec.Stride = []int{8, 1, 16, 40}[kn.Intn(4)]
	keyRange := []int{12, 5, 40}[kn.Intn(3)]
	desc.Pool, desc.Storage, desc.Par, desc.Policy = spec, w.Disk.Mode.String(), par, w.Sched.PolicyName()
	w.Out.Bucket = w.Disk.Mode.String()
	c, err := w.Create(e.Ctx, w.Disk.NewHandle("c0", true))
	if err != nil {
		return nil, kernel.Violatef(sig+":unexpected-error:init", "lake init failed: %v", err)
	}
	id, err := c.CreatePool(e.Ctx, &spec)
	if err != nil {
		return nil, kernel.Violatef(sig+":unexpected-error:create-pool", "create pool failed: %v", err)
	}
	pm := &PoolM{Spec: spec, ID: id}
	e.Pools[spec.Name] = pm
	r := NewSeqRun(e, c, pm, keyRange, sig)
	r.NoClientScans = true
	nloads := kn.Range(1, 5)
	for i := 0; i < nloads; i++ {
		op := Op{Kind: "load", Branch: "main", N: wl.Range(3, 40)}
		if i > 1 && wl.Chance(1, 4) {
			op = Op{Kind: "compact", Branch: "main", Objs: []int{0, 1}}
		}
		op, v := r.Do(wl, op, i, false)
		desc.Ops = append(desc.Ops, op)
		if v != nil {
			// Sequential misbehaviour without any filter is C14's business.
			w.Out.Bucket = "setup-misbehaves"
			return nil, nil
		}
	}
	return r, nil
}

// c16GenFilter draws a filter biased to the pool key, with literals taken
// from the keys present (and their neighbours) so that boundaries are hit.
func c16GenFilter(s *kernel.Stream, spec *PoolSpec, recs []Rec, keyRange, maxU int) string {
	key := spec.KeyPath
	var ints []int64
	for _, r := range recs {
		if r.Kind == KInt {
			ints = append(ints, r.I)
		}
	}
	sort.Slice(ints, func(i, j int) bool { return ints[i] < ints[j] })
	lit := func() string {
		if len(ints) > 0 && s.Chance(3, 4) {
			v := ints[s.Intn(len(ints))]
			switch s.Intn(5) {
			case 0:
				v--
			case 1:
				v++
			}
			if s.Chance(1, 8) {
				return fmt.Sprintf("%d.", v)
			}
			return fmt.Sprint(v)
		}
		switch s.Pick(4, 1, 1, 1, 1) {
		case 0:
			return fmt.Sprint(s.Intn(keyRange+4) - 2)
		case 1:
			return "null"
		case 2:
			return fmt.Sprintf("%q", keyStrs[s.Intn(len(keyStrs))])
		case 3:
			return fmt.Sprintf("%d.5", s.Intn(keyRange))
		default:
			return "-1"
		}
	}
	ops := []string{"==", "<", "<=", ">", ">=", "!="}
	atom := func() string {
		op := ops[s.Intn(len(ops))]
		switch s.Pick(8, 4, 2, 1) {
		case 0:
			return fmt.Sprintf("%s %s %s", key, op, lit())
		case 1:
			return fmt.Sprintf("%s %s %s", lit(), op, key)
		case 2:
			return fmt.Sprintf("d %s %d", op, s.Intn(6)-2)
		default:
			return fmt.Sprintf("u %s %d", op, s.Intn(maxU+2))
		}
	}
	var gen func(d int) string
	gen = func(d int) string {
		if d <= 0 || s.Chance(2, 5) {
			return atom()
		}
		switch s.Pick(3, 3, 1) {
		case 0:
			return "(" + gen(d-1) + " and " + gen(d-1) + ")"
		case 1:
			return "(" + gen(d-1) + " or " + gen(d-1) + ")"
		default:
			return "not (" + gen(d-1) + ")"
		}
	}
	return gen(3)
}
