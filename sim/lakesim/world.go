package lakesim

import (
	"context"
	"fmt"
	"github.com/brimdata/super/compiler"
	"github.com/brimdata/super/runtime"
	"math/rand"
	"os"
	goruntime "runtime"
	"runtime/debug"
	"runtime/pprof"
	"strings"
	"testing"
	"testing/synctest"
	"time"

	"github.com/brimdata/super"
	"github.com/brimdata/super/lake"
	lakeapi "github.com/brimdata/super/lake/api"
	"github.com/brimdata/super/lakeparse"
	"github.com/brimdata/super/pkg/storage"
	"github.com/brimdata/super/zbuf"
	"github.com/segmentio/ksuid"
	"verifsim/kernel"
	"verifsim/simdisk"
)

// World is one simulated run: a disk, a scheduler, clients ("processes") with
// their own lake handles, an observer, and the choice streams.
type World struct {
	Tape           *kernel.Tape
	Kn, Wl, Sc, Fl *kernel.Stream
	Disk           *simdisk.Disk
	Sched          *kernel.Sched
	Obs            *Client
	RootURI        *storage.URI
	Out            *kernel.Outcome
	nextU          int
	start          time.Time
	Log            []string
}

// Client is one simulated process: its own storage handle and lake.Root.
type Client struct {
	W    *World
	Name string
	H    *simdisk.Handle
	Root *lake.Root
	API  lakeapi.Interface
	comp runtime.Compiler
}

// Compiler returns the client's lake compiler, made once: making one loads
// the system's CA bundle for the S3 client (tens of milliseconds).
func (c *Client) Compiler() runtime.Compiler {
	if c.comp == nil {
		c.comp = compiler.NewLakeCompiler(c.Root)
	}
	return c.comp
}

// baseProcs is GOMAXPROCS as the driver set it (-test.cpu), captured by the
// first world.
var baseProcs int

type seededReader struct{ s uint64 }

func (r *seededReader) Read(p []byte) (int, error) {
	for i := range p {
		r.s += 0x9e3779b97f4a7c15
		z := r.s
		z = (z ^ (z >> 30)) * 0xbf58476d1ce4e5b9
		z = (z ^ (z >> 27)) * 0x94d049bb133111eb
		p[i] = byte(z ^ (z >> 31))
	}
	return len(p), nil
}

// bubblePanic carries a panic out of the bubble's root goroutine.
type bubblePanic struct {
	val   any
	stack string
}

// InBubble runs f as the root of a fresh synctest bubble.  It returns the
// panic of the root goroutine (if any) and whether goroutines were left
// blocked when f returned.
func InBubble(f func()) (p *bubblePanic, leaked bool) {
	defer func() {
		if r := recover(); r != nil {
			msg := fmt.Sprint(r)
			if strings.Contains(msg, "blocked goroutines remain") {
				if os.Getenv("VERIF_DEBUG_LEAK") != "" {
					fmt.Fprintln(os.Stderr, "LEAK:", msg)
					pprof.Lookup("goroutine").WriteTo(os.Stderr, 1)
				}
				leaked = true
				return
			}
			if strings.Contains(msg, "deadlock") {
				if os.Getenv("VERIF_DEBUG_LEAK") != "" {
					fmt.Fprintln(os.Stderr, "DEADLOCK:", msg)
					pprof.Lookup("goroutine").WriteTo(os.Stderr, 2)
				}
				p = &bubblePanic{val: "bubble deadlock: " + msg, stack: string(debug.Stack())}
				return
			}
			panic(r)
		}
	}()
	synctest.Test(kernel.T, func(t *testing.T) {
		defer func() {
			if r := recover(); r != nil {
				p = &bubblePanic{val: r, stack: string(debug.Stack())}
			}
		}()
		f()
	})
	return p, false
}

// NewWorld must be called inside the bubble.
func NewWorld(tape *kernel.Tape, mode simdisk.Mode, out *kernel.Outcome) *World {
	w := &World{Tape: tape, Kn: tape.Stream("knobs"), Wl: tape.Stream("workload"),
		Sc: tape.Stream("schedule"), Fl: tape.Stream("faults"), Out: out, start: time.Now()}
	ksuid.SetRand(&seededReader{s: tape.Seed})
	rand.Seed(int64(tape.Seed))
	// GOMAXPROCS is a tuning knob of the code under test (vacuum's worker
	// limit, default reader threads): vary it per run, as a function of the
	// seed.  Engines the driver pins to one P stay there.
	if baseProcs == 0 {
		baseProcs = goruntime.GOMAXPROCS(0)
	}
	if baseProcs > 1 {
		n := []int{baseProcs, 1, 4}[tape.Seed%3]
		goruntime.GOMAXPROCS(n)
		out.Probe(fmt.Sprintf("gomaxprocs=%d", n))
	}
	w.Sched = kernel.NewSched(w.Sc, 400)
	w.Disk = simdisk.NewDisk(mode, w.Sched)
	w.RootURI = w.Disk.Root()
	return w
}

// Finish copies run statistics into the outcome.
func (w *World) Finish() {
	w.Out.Steps = w.Sched.Steps()
	w.Out.SimNanos = int64(time.Since(w.start))
	w.Out.TraceHash = w.Sched.TraceHash()
	w.Out.Trace = w.Sched.Trace()
	if w.Sched.Preemptions > 0 {
		w.Out.ProbeN("preemptions", w.Sched.Preemptions)
	}
}

func (w *World) Logf(format string, a ...any) {
	if len(w.Log) < 300 {
		w.Log = append(w.Log, fmt.Sprintf(format, a...))
	}
}

// Create initialises the lake on the disk through a throw-away handle.
func (w *World) Create(ctx context.Context, h *simdisk.Handle) (*Client, error) {
	root, err := lake.Create(ctx, h, nil, w.RootURI)
	if err != nil {
		return nil, err
	}
	return &Client{W: w, Name: h.Client, H: h, Root: root, API: lakeapi.FromRoot(root)}, nil
}

// Open gives a new client (cold caches) on the current disk state.
func (w *World) Open(ctx context.Context, name string, yield bool) (*Client, error) {
	h := w.Disk.NewHandle(name, yield)
	// The observer only looks: it must not leave snapshot files behind or
	// repair a lagging HEAD on the clients' behalf.
	h.ReadOnly = name == "observer"
	return w.OpenOn(ctx, h)
}

func (w *World) OpenOn(ctx context.Context, h *simdisk.Handle) (*Client, error) {
	root, err := lake.Open(ctx, h, nil, w.RootURI)
	if err != nil {
		return nil, err
	}
	return &Client{W: w, Name: h.Client, H: h, Root: root, API: lakeapi.FromRoot(root)}, nil
}

// Query runs src to completion and returns copies of all result values.
func (c *Client) Query(ctx context.Context, src string) ([]zed.Value, error) {
	q, err := c.API.Query(ctx, &lakeparse.Commitish{}, src)
	if err != nil {
		return nil, err
	}
	defer q.Pull(true)
	return drain(q)
}

func drain(q zbuf.Puller) ([]zed.Value, error) {
	var out []zed.Value
	for {
		b, err := q.Pull(false)
		if err != nil {
			return out, err
		}
		if b == nil {
			return out, nil
		}
		for _, v := range b.Values() {
			out = append(out, v.Copy())
		}
		b.Unref()
	}
}
