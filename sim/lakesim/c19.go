package lakesim

import (
	"bytes"
	"context"
	"encoding/json"
	"fmt"
	"hash/fnv"
	"io"
	"math/rand"
	"net/http"
	"os"
	"path/filepath"
	"regexp"
	"runtime/debug"
	"runtime/pprof"
	"sort"
	"strings"
	"sync"
	"time"

	"github.com/brimdata/super"
	"github.com/brimdata/super/api"
	"github.com/brimdata/super/api/client"
	"github.com/brimdata/super/api/queryio"
	"github.com/brimdata/super/lake"
	lakeapi "github.com/brimdata/super/lake/api"
	"github.com/brimdata/super/order"
	"github.com/brimdata/super/pkg/field"
	"github.com/brimdata/super/pkg/storage"
	"github.com/brimdata/super/runtime/sam/expr/agg"
	"github.com/brimdata/super/service"
	"github.com/brimdata/super/zbuf"
	"github.com/brimdata/super/zio"
	"github.com/brimdata/super/zio/anyio"
	"github.com/brimdata/super/zio/jsonio"
	"github.com/brimdata/super/zio/zngio"
	"github.com/brimdata/super/zson"
	"github.com/segmentio/ksuid"
	"verifsim/kernel"
)

var _ = agg.NewSchema

// C19: twin lakes.  The same history is applied to lake A through the direct
// handle (lakeapi.FromRoot) and to lake B through the HTTP service
// (service.Core behind an in-memory transport, api/client on the other end);
// after every operation the two must have answered alike and hold the same
// observable state.  Faults: the client drops a query response after k bytes,
// an upload's body fails after k bytes, a data object is lost or truncated
// under a running query (both lakes alike).

// ---- in-memory HTTP transport ----

type memTransport struct {
	core     http.Handler
	wg       sync.WaitGroup
	mu       sync.Mutex
	panics   []string
	requests int
}

type memResponse struct {
	h      http.Header
	pw     *io.PipeWriter
	ready  chan struct{}
	once   sync.Once
	status int
	sent   http.Header
}

func (m *memResponse) Header() http.Header { return m.h }
func (m *memResponse) WriteHeader(code int) {
	m.once.Do(func() {
		m.status = code
		m.sent = m.h.Clone() // as net/http does: later changes are not sent
		close(m.ready)
	})
}
func (m *memResponse) Write(p []byte) (int, error) {
	m.WriteHeader(http.StatusOK)
	return m.pw.Write(p)
}
func (m *memResponse) Flush() {}

type respBody struct {
	pr     *io.PipeReader
	cancel context.CancelFunc
}

func (b *respBody) Read(p []byte) (int, error) { return b.pr.Read(p) }
func (b *respBody) Close() error {
	// A client that goes away: the server's writes fail and its request
	// context is cancelled.
	b.cancel()
	return b.pr.Close()
}

func (t *memTransport) RoundTrip(req *http.Request) (*http.Response, error) {
	sctx, cancel := context.WithCancel(req.Context())
	pr, pw := io.Pipe()
	sreq := req.Clone(sctx)
	if sreq.Body == nil {
		sreq.Body = http.NoBody
	}
	sreq.RequestURI = req.URL.RequestURI()
	sreq.RemoteAddr = "sim:1"
	rw := &memResponse{h: http.Header{}, pw: pw, ready: make(chan struct{})}
	t.mu.Lock()
	t.requests++
	if sreq.Header.Get(api.RequestIDHeader) == "" {
		// Otherwise the service draws a ksuid for it, which would shift the
		// ids it hands out relative to the direct twin.
		sreq.Header.Set(api.RequestIDHeader, fmt.Sprintf("sim-%d", t.requests))
	}
	t.mu.Unlock()
	t.wg.Add(1)
	go func() {
		defer t.wg.Done()
		defer func() {
			if r := recover(); r != nil && r != http.ErrAbortHandler {
				t.mu.Lock()
				t.panics = append(t.panics, fmt.Sprintf("%v\n%s", r, debug.Stack()))
				t.mu.Unlock()
				rw.WriteHeader(http.StatusInternalServerError)
				pw.CloseWithError(io.ErrUnexpectedEOF)
				return
			} else if r != nil {
				rw.WriteHeader(http.StatusOK)
				pw.CloseWithError(io.ErrUnexpectedEOF)
				return
			}
			rw.WriteHeader(http.StatusOK)
			pw.Close()
		}()
		t.core.ServeHTTP(rw, sreq)
	}()
	select {
	case <-rw.ready:
	case <-req.Context().Done():
		cancel()
		pr.Close()
		return nil, req.Context().Err()
	}
	return &http.Response{
		Status:        fmt.Sprintf("%d %s", rw.status, http.StatusText(rw.status)),
		StatusCode:    rw.status,
		Proto:         "HTTP/1.1",
		ProtoMajor:    1,
		ProtoMinor:    1,
		Header:        rw.sent,
		Body:          &respBody{pr, cancel},
		ContentLength: -1,
		Request:       req,
	}, nil
}

// ---- twins ----

type c19Pool struct {
	Name     string
	Spec     PoolSpec
	Branches []string
	KeyRange int
}

type c19Op struct {
	Kind string `json:"op"`
	Arg  string `json:"arg,omitempty"`
	ErrA string `json:"direct_error,omitempty"`
	ErrB string `json:"service_error,omitempty"`
}

type c19Desc struct {
	Ops    []c19Op `json:"ops"`
	Faults int     `json:"faults"`
}

type twins struct {
	ctx     context.Context
	A, B    lakeapi.Interface
	conn    *client.Connection
	tr      *memTransport
	dirA    string
	dirB    string
	pools   []*c19Pool
	nextU   int
	nextN   int
	out     *kernel.Outcome
	desc    *c19Desc
	wl, fl  *kernel.Stream
	touched *c19Pool
	seed    uint64
	opSeq   int
}

var ksuidRE = regexp.MustCompile(`[0-9A-Za-z]{27}`)

func normErr(err error) string {
	if err == nil {
		return ""
	}
	return ksuidRE.ReplaceAllString(err.Error(), "<id>")
}

func runC19(tape *kernel.Tape) *kernel.Outcome {
	out := &kernel.Outcome{}
	desc := &c19Desc{}
	out.Desc = desc
	var viol *kernel.Violation
	start := time.Now()
	p, leaked := InBubble(func() {
		start = time.Now()
		viol = c19Body(tape, out, desc)
		// The service keeps a finished query's status for 10 (here:
		// simulated) seconds; let those timers run out so that anything
		// still blocked at the end of the run is a real leak.
		time.Sleep(11 * time.Second)
		out.SimNanos = int64(time.Since(start))
	})
	if p != nil {
		msg := fmt.Sprintf("%v\n%s", p.val, p.stack)
		out.Violation = &kernel.Violation{Signature: "C19:panic:" + kernel.PanicSite(msg), Message: msg}
		return out
	}
	if leaked {
		out.Probe("goroutines-left-blocked-at-end-of-run")
	}
	out.Violation = viol
	out.Nontrivial = len(desc.Ops) > 1
	return out
}

func c19Body(tape *kernel.Tape, out *kernel.Outcome, desc *c19Desc) *kernel.Violation {
	kn, wl, fl := tape.Stream("knobs"), tape.Stream("workload"), tape.Stream("faults")
	ksuid.SetRand(&seededReader{s: tape.Seed})
	rand.Seed(int64(tape.Seed))
	ctx, cancel := context.WithCancel(context.Background())
	defer cancel()
	base, err := os.MkdirTemp("", "verif-twins-")
	if err != nil {
		panic("harness: " + err.Error())
	}
	defer os.RemoveAll(base)
	tw := &twins{ctx: ctx, dirA: filepath.Join(base, "a"), dirB: filepath.Join(base, "b"), out: out, desc: desc, wl: wl, fl: fl, seed: tape.Seed}
	rootA, err := lake.Create(ctx, storage.NewLocalEngine(), nil, storage.MustParseURI(tw.dirA))
	if err != nil {
		panic("harness: create lake A: " + err.Error())
	}
	tw.A = lakeapi.FromRoot(rootA)
	core, err := service.NewCore(ctx, service.Config{Root: storage.MustParseURI(tw.dirB)})
	if err != nil {
		panic("harness: start service: " + err.Error())
	}
	tw.tr = &memTransport{core: core}
	saved := http.DefaultTransport
	http.DefaultTransport = tw.tr
	defer func() { http.DefaultTransport = saved }()
	tw.conn = client.NewConnectionTo("http://lake.sim")
	tw.B = lakeapi.NewRemoteLake(tw.conn)

	nops := kn.Range(2, 14)
	faulty := kn.Chance(1, 2)
	for i := 0; i < nops; i++ {
		if v := tw.step(faulty); v != nil {
			return v
		}
		if v := tw.compareState(i == nops-1 || i%4 == 3); v != nil {
			return v
		}
	}
	// Every request's handler has returned (a handler stuck after its client
	// went away would deadlock the bubble here).
	cancel()
	tw.tr.wg.Wait()
	if len(tw.tr.panics) > 0 {
		return &kernel.Violation{Signature: "C19:handler-panic:" + kernel.PanicSite(tw.tr.panics[0]), Message: tw.tr.panics[0]}
	}
	out.ProbeN("http-requests", tw.tr.requests)
	if os.Getenv("VERIF_C19_GOROUTINES") != "" {
		pprof.Lookup("goroutine").WriteTo(os.Stderr, 1)
	}
	return nil
}

func (t *twins) record(op c19Op) { t.desc.Ops = append(t.desc.Ops, op) }

// both runs f against the direct and the service handle and demands the same
// verdict.
func (t *twins) both(kind, arg string, f func(x lakeapi.Interface, remote bool) error) (bool, *kernel.Violation) {
	// Both twins draw their ids from the same sequence for this operation,
	// so that id-dependent choices (tie order between objects with equal
	// keys, hence where a compaction cuts) come out alike.
	t.opSeq++
	ksuid.SetRand(&seededReader{s: kernel.Mix(t.seed, uint64(t.opSeq))})
	errA := f(t.A, false)
	ksuid.SetRand(&seededReader{s: kernel.Mix(t.seed, uint64(t.opSeq))})
	errB := f(t.B, true)
	t.record(c19Op{Kind: kind, Arg: arg, ErrA: normErr(errA), ErrB: normErr(errB)})
	if (errA == nil) != (errB == nil) {
		return false, kernel.Violatef("C19:verdict-differs:"+kind, "%s %s: direct access says %q, the service says %q", kind, arg, normErr(errA), normErr(errB))
	}
	if errA != nil {
		t.out.Probe("op-fails-on-both:" + kind)
	}
	return errA == nil, nil
}

func (t *twins) poolID(x lakeapi.Interface, name string) (ksuid.KSUID, error) {
	return x.PoolID(t.ctx, name)
}

func msg(s string) api.CommitMessage { return api.CommitMessage{Author: "sim", Body: s} }

// queryLines runs src through the handle and returns ZSON lines.
func (t *twins) queryLines(x lakeapi.Interface, src string) ([]string, error) {
	q, err := x.Query(t.ctx, nil, src)
	if err != nil {
		return nil, err
	}
	defer q.Pull(true)
	var lines []string
	for {
		b, err := q.Pull(false)
		if err != nil {
			return lines, err
		}
		if b == nil {
			return lines, nil
		}
		for _, v := range b.Values() {
			lines = append(lines, zson.FormatValue(v))
		}
		b.Unref()
	}
}

type objSig struct {
	sig string
	id  ksuid.KSUID
}

// objects lists a branch's data objects with an identity that does not
// involve their (random) ids, sorted by it.
func (t *twins) objects(x lakeapi.Interface, pool, branch string) ([]objSig, error) {
	q, err := x.Query(t.ctx, nil, fmt.Sprintf("from %s@%s:objects", pool, branch))
	if err != nil {
		return nil, err
	}
	defer q.Pull(true)
	var out []objSig
	for {
		b, err := q.Pull(false)
		if err != nil {
			return nil, err
		}
		if b == nil {
			break
		}
		for _, v := range b.Values() {
			var id ksuid.KSUID
			if f := v.Deref("id"); f != nil && len(f.Bytes()) == len(id) {
				copy(id[:], f.Bytes())
			}
			var parts []string
			// (not size: the compressed size depends on the order of values
			// with equal keys, which follows the twins' different ids)
			for _, name := range []string{"min", "max", "count"} {
				if f, ok := topField(v, name); ok {
					parts = append(parts, name+"="+zson.FormatValue(f))
				}
			}
			parts = append(parts, "values="+t.objectDigest(x, pool, id))
			out = append(out, objSig{strings.Join(parts, " "), id})
			if os.Getenv("VERIF_C19_DEBUG") != "" {
				fmt.Fprintf(os.Stderr, "OBJ %p %s@%s %s %s\n", x, pool, branch, id, strings.Join(parts, " "))
			}
		}
		b.Unref()
	}
	sort.SliceStable(out, func(i, j int) bool { return out[i].sig < out[j].sig })
	return out, nil
}

// objectDigest hashes the multiset of values in a data object's file, so that
// "the same object" on both twins means the same values, not just the same
// bounds and count (where a rewrite cuts its output depends on goroutine
// timing inside the rewrite, so the twins' layouts may legitimately differ).
func (t *twins) objectDigest(x lakeapi.Interface, pool string, id ksuid.KSUID) string {
	dir := t.dirA
	if x != t.A {
		dir = t.dirB
	}
	pid, err := t.poolID(x, pool)
	if err != nil {
		return "?"
	}
	data, err := os.ReadFile(filepath.Join(dir, pid.String(), "data", id.String()+".zng"))
	if err != nil {
		return "?"
	}
	zr := zngio.NewReader(zed.NewContext(), bytes.NewReader(data))
	defer zr.Close()
	var lines []string
	for {
		v, err := zr.Read()
		if err != nil {
			return "?"
		}
		if v == nil {
			break
		}
		lines = append(lines, zson.FormatValue(*v))
	}
	sort.Strings(lines)
	h := fnv.New64a()
	for _, l := range lines {
		h.Write([]byte(l))
		h.Write([]byte{'\n'})
	}
	return fmt.Sprintf("%x", h.Sum64())
}

func topField(v zed.Value, name string) (zed.Value, bool) {
	rt := zed.TypeRecordOf(v.Type())
	if rt == nil || v.IsNull() {
		return zed.Value{}, false
	}
	it := v.Bytes().Iter()
	for _, f := range rt.Fields {
		b := it.Next()
		if f.Name == name {
			return zed.NewValue(f.Type, b), true
		}
	}
	return zed.Value{}, false
}

// commitAt returns the id of the i-th commit of the branch's log (0 = tip).
func (t *twins) commitAt(x lakeapi.Interface, pool, branch string, i int) (ksuid.KSUID, int, error) {
	q, err := x.Query(t.ctx, nil, fmt.Sprintf("from %s@%s:log", pool, branch))
	if err != nil {
		return ksuid.Nil, 0, err
	}
	defer q.Pull(true)
	var ids []ksuid.KSUID
	for {
		b, err := q.Pull(false)
		if err != nil {
			return ksuid.Nil, 0, err
		}
		if b == nil {
			break
		}
		for _, v := range b.Values() {
			var id ksuid.KSUID
			if f := v.Deref("id"); f != nil && len(f.Bytes()) == len(id) {
				copy(id[:], f.Bytes())
				ids = append(ids, id)
			}
		}
		b.Unref()
	}
	if len(ids) == 0 {
		return ksuid.Nil, 0, fmt.Errorf("empty log")
	}
	return ids[i%len(ids)], len(ids), nil
}

var c19LoadFormats = []string{"iface", "zng", "zson", "zjson", "json", "csv", "vng", "auto-zson", "auto-zng", "auto-json"}

// encode renders values in a format with the repository's own writer.
func encodeAs(format string, vals []zed.Value) ([]byte, error) {
	var buf bytes.Buffer
	w, err := anyio.NewWriter(zio.NopCloser(&buf), anyio.WriterOpts{Format: format})
	if err != nil {
		return nil, err
	}
	for _, v := range vals {
		if err := w.Write(v); err != nil {
			return nil, err
		}
	}
	if err := w.Close(); err != nil {
		return nil, err
	}
	return buf.Bytes(), nil
}

type failingReader struct {
	r    io.Reader
	left int
}

func (f *failingReader) Read(p []byte) (int, error) {
	if f.left <= 0 {
		return 0, fmt.Errorf("simulated upload failure")
	}
	if len(p) > f.left {
		p = p[:f.left]
	}
	n, err := f.r.Read(p)
	f.left -= n
	return n, err
}

func (t *twins) pickPool() *c19Pool {
	if len(t.pools) == 0 {
		return nil
	}
	return t.pools[t.wl.Intn(len(t.pools))]
}

func (t *twins) step(faulty bool) *kernel.Violation {
	wl := t.wl
	if len(t.pools) == 0 || wl.Chance(1, 12) {
		return t.opCreatePool()
	}
	p := t.pickPool()
	t.touched = p
	branch := p.Branches[wl.Intn(len(p.Branches))]
	switch wl.Pick(10, 5, 3, 3, 3, 3, 2, 2, 2, 2, 1, 1, 6) {
	case 0:
		return t.opLoad(p, branch, faulty)
	case 1:
		return t.opQuery(p, branch, faulty)
	case 2:
		pred := GenPred(wl, &p.Spec, p.KeyRange, t.nextU, 1)
		if wl.Chance(1, 10) {
			pred = []string{"k >", "k == ", "((d > 1)", "count()"}[wl.Intn(4)] // not a predicate
		}
		_, v := t.both("delete-where", fmt.Sprintf("%s@%s %s", p.Name, branch, pred), func(x lakeapi.Interface, _ bool) error {
			id, err := t.poolID(x, p.Name)
			if err != nil {
				return err
			}
			_, err = x.DeleteWhere(t.ctx, id, branch, pred, msg("delete where"))
			return err
		})
		return v
	case 3:
		return t.opObjects(p, branch, "delete")
	case 4:
		return t.opObjects(p, branch, "compact")
	case 5:
		t.nextN++
		name := fmt.Sprintf("b%d", t.nextN)
		ok, v := t.both("create-branch", fmt.Sprintf("%s@%s from %s", p.Name, name, branch), func(x lakeapi.Interface, _ bool) error {
			id, err := t.poolID(x, p.Name)
			if err != nil {
				return err
			}
			tip, err := x.CommitObject(t.ctx, id, branch)
			if err != nil {
				return err
			}
			return x.CreateBranch(t.ctx, id, name, tip)
		})
		if ok {
			p.Branches = append(p.Branches, name)
		}
		return v
	case 6:
		other := p.Branches[wl.Intn(len(p.Branches))]
		_, v := t.both("merge", fmt.Sprintf("%s: %s into %s", p.Name, branch, other), func(x lakeapi.Interface, _ bool) error {
			id, err := t.poolID(x, p.Name)
			if err != nil {
				return err
			}
			_, err = x.MergeBranch(t.ctx, id, branch, other, msg("merge"))
			return err
		})
		return v
	case 7:
		k := wl.Intn(4)
		_, v := t.both("revert", fmt.Sprintf("%s@%s commit #%d from the tip", p.Name, branch, k), func(x lakeapi.Interface, _ bool) error {
			id, err := t.poolID(x, p.Name)
			if err != nil {
				return err
			}
			c, _, err := t.commitAt(x, p.Name, branch, k)
			if err != nil {
				return err
			}
			_, err = x.Revert(t.ctx, id, branch, c, msg("revert"))
			return err
		})
		return v
	case 8:
		return t.opObjects(p, branch, []string{"add-vectors", "delete-vectors"}[wl.Intn(2)])
	case 9:
		dry := wl.Chance(1, 2)
		var counts [2]int
		_, v := t.both("vacuum", fmt.Sprintf("%s@%s dryrun=%v", p.Name, branch, dry), func(x lakeapi.Interface, remote bool) error {
			ids, err := x.Vacuum(t.ctx, p.Name, branch, dry)
			if remote {
				counts[1] = len(ids)
			} else {
				counts[0] = len(ids)
			}
			return err
		})
		if v == nil && counts[0] != counts[1] {
			return kernel.Violatef("C19:result-differs:vacuum", "vacuum %s@%s dryrun=%v: direct access reports %d objects, the service %d", p.Name, branch, dry, counts[0], counts[1])
		}
		return v
	case 10:
		t.nextN++
		name := fmt.Sprintf("r%d", t.nextN)
		ok, v := t.both("rename-pool", p.Name+" to "+name, func(x lakeapi.Interface, _ bool) error {
			id, err := t.poolID(x, p.Name)
			if err != nil {
				return err
			}
			return x.RenamePool(t.ctx, id, name)
		})
		if ok {
			p.Name = name
			p.Spec.Name = name
		}
		return v
	case 11:
		if wl.Chance(1, 2) && len(p.Branches) > 1 && branch != "main" {
			ok, v := t.both("remove-branch", p.Name+"@"+branch, func(x lakeapi.Interface, _ bool) error {
				id, err := t.poolID(x, p.Name)
				if err != nil {
					return err
				}
				return x.RemoveBranch(t.ctx, id, branch)
			})
			if ok {
				for i, b := range p.Branches {
					if b == branch {
						p.Branches = append(p.Branches[:i], p.Branches[i+1:]...)
						break
					}
				}
			}
			return v
		}
		ok, v := t.both("remove-pool", p.Name, func(x lakeapi.Interface, _ bool) error {
			id, err := t.poolID(x, p.Name)
			if err != nil {
				return err
			}
			return x.RemovePool(t.ctx, id)
		})
		if ok {
			for i, q := range t.pools {
				if q == p {
					t.pools = append(t.pools[:i], t.pools[i+1:]...)
					break
				}
			}
		}
		return v
	default:
		return t.opLoad(p, branch, faulty)
	}
}

func (t *twins) opCreatePool() *kernel.Violation {
	wl := t.wl
	t.nextN++
	p := &c19Pool{Name: fmt.Sprintf("p%d", t.nextN), Branches: []string{"main"}, KeyRange: []int{6, 30}[wl.Intn(2)]}
	if len(t.pools) > 0 && wl.Chance(1, 6) {
		p.Name = t.pools[0].Name // a name that is taken
	}
	p.Spec = PoolSpec{Name: p.Name, KeyPath: "k", Desc: wl.Chance(1, 3), MixedKeys: wl.Chance(1, 4)}
	p.Spec.Thresh = []int64{0, 400, 3000}[wl.Intn(3)]
	p.Spec.Stride = []int{0, 64, 2000}[wl.Intn(3)]
	o := order.Asc
	if p.Spec.Desc {
		o = order.Desc
	}
	keys := order.SortKeys{order.NewSortKey(o, field.Path{"k"})}
	ok, v := t.both("create-pool", fmt.Sprintf("%s desc=%v thresh=%d stride=%d", p.Name, p.Spec.Desc, p.Spec.Thresh, p.Spec.Stride), func(x lakeapi.Interface, _ bool) error {
		_, err := x.CreatePool(t.ctx, p.Name, keys, p.Spec.Stride, p.Spec.Thresh)
		return err
	})
	if ok {
		t.pools = append(t.pools, p)
		t.touched = p
	}
	return v
}

func (t *twins) opLoad(p *c19Pool, branch string, faulty bool) *kernel.Violation {
	wl := t.wl
	format := c19LoadFormats[wl.Intn(len(c19LoadFormats))]
	n := wl.Range(1, 40)
	flat := format == "json" || format == "csv" || format == "auto-json"
	var texts []string
	for i := 0; i < n; i++ {
		if flat {
			texts = append(texts, fmt.Sprintf("{k:%d,u:%d,d:%d}", wl.Intn(p.KeyRange), t.nextU, wl.Intn(7)-2))
		} else {
			texts = append(texts, GenRec(wl, &p.Spec, t.nextU, p.KeyRange).ZSON(&p.Spec))
		}
		t.nextU++
	}
	zctx := zed.NewContext()
	var vals []zed.Value
	for _, s := range texts {
		v, err := zson.ParseValue(zctx, s)
		if err != nil {
			panic("harness: " + s + ": " + err.Error())
		}
		vals = append(vals, v)
	}
	wire := strings.TrimPrefix(format, "auto-")
	var body []byte
	if format != "iface" {
		var err error
		if body, err = encodeAs(wire, vals); err != nil {
			panic("harness: encode " + wire + ": " + err.Error())
		}
	}
	failAt := -1
	if faulty && t.fl.Chance(1, 8) {
		// The upload dies after k bytes (service) / the reader fails at the
		// same place (direct).
		if format == "iface" {
			failAt = t.fl.Intn(n)
		} else {
			failAt = t.fl.Intn(len(body) + 1)
		}
		t.out.Fault("upload-fails-midway")
		t.desc.Faults++
	}
	arg := fmt.Sprintf("%s@%s %d values as %s", p.Name, branch, n, format)
	if failAt >= 0 {
		arg += fmt.Sprintf(" failing at %d", failAt)
	}
	kind := "load"
	if failAt >= 0 {
		kind = "load-with-failing-upload"
	}
	_, v := t.both(kind, arg, func(x lakeapi.Interface, remote bool) error {
		id, err := t.poolID(x, p.Name)
		if err != nil {
			return err
		}
		if format == "iface" {
			var r zio.Reader = zbuf.NewArray(append([]zed.Value(nil), vals...))
			if failAt >= 0 {
				r = &failingZio{r: r, left: failAt}
			}
			_, err := x.Load(t.ctx, zctx, id, branch, r, msg("load"))
			return err
		}
		var rd io.Reader = bytes.NewReader(body)
		if failAt >= 0 {
			rd = &failingReader{r: rd, left: failAt}
		}
		if remote {
			ctype := map[string]string{"zng": api.MediaTypeZNG, "zson": api.MediaTypeZSON, "zjson": api.MediaTypeZJSON, "json": api.MediaTypeJSON,
				"csv": api.MediaTypeCSV, "vng": api.MediaTypeVNG}[wire]
			if strings.HasPrefix(format, "auto-") {
				ctype = api.MediaTypeAny
			}
			_, err := t.conn.Load(t.ctx, id, branch, ctype, rd, msg("load"))
			return err
		}
		// Direct: decode the same bytes the same way and load.
		if failAt >= 0 {
			all, _ := io.ReadAll(rd) // what arrives before the failure ...
			rd = io.MultiReader(bytes.NewReader(all), &failingReader{})
			if wire == "vng" {
				return fmt.Errorf("simulated upload failure") // the service spools vng to a file first
			}
		}
		opts := anyio.ReaderOpts{Format: wire, ZNG: zngio.ReaderOpts{Validate: true}}
		if strings.HasPrefix(format, "auto-") {
			opts.Format = "auto"
		}
		var src io.Reader = rd
		if wire == "vng" {
			src = bytes.NewReader(body)
		}
		lctx := zed.NewContext()
		zr, err := anyio.NewReaderWithOpts(lctx, src, nil, opts)
		if err != nil {
			return err
		}
		defer zr.Close()
		_, err = x.Load(t.ctx, lctx, id, branch, zr, msg("load"))
		return err
	})
	return v
}

type failingZio struct {
	r    zio.Reader
	left int
}

func (f *failingZio) Read() (*zed.Value, error) {
	if f.left <= 0 {
		return nil, fmt.Errorf("simulated upload failure")
	}
	f.left--
	return f.r.Read()
}

// sameLayout reports whether the branch consists of the same data objects
// (ids, bounds, counts, values) on both twins; operations that name objects
// are only mirrored when it does.
func (t *twins) sameLayout(pool, branch string) bool {
	a, errA := t.objects(t.A, pool, branch)
	b, errB := t.objects(t.B, pool, branch)
	if errA != nil || errB != nil || len(a) != len(b) {
		t.out.Probe("object-layouts-differ")
		return false
	}
	for i := range a {
		if a[i].sig != b[i].sig || a[i].id != b[i].id {
			t.out.Probe("object-layouts-differ")
			return false
		}
	}
	return true
}

func (t *twins) opObjects(p *c19Pool, branch, kind string) *kernel.Violation {
	wl := t.wl
	picks := []int{wl.Intn(8)}
	if kind == "compact" || wl.Chance(1, 3) {
		picks = append(picks, wl.Intn(8))
	}
	vectors := wl.Chance(1, 3)
	if !t.sameLayout(p.Name, branch) {
		return nil
	}
	_, v := t.both(kind, fmt.Sprintf("%s@%s objects %v", p.Name, branch, picks), func(x lakeapi.Interface, _ bool) error {
		id, err := t.poolID(x, p.Name)
		if err != nil {
			return err
		}
		objs, err := t.objects(x, p.Name, branch)
		if err != nil {
			return err
		}
		if len(objs) == 0 {
			return fmt.Errorf("no objects")
		}
		var ids []ksuid.KSUID
		seen := map[int]bool{}
		for _, k := range picks {
			if k %= len(objs); !seen[k] {
				seen[k] = true
				ids = append(ids, objs[k].id)
			}
		}
		switch kind {
		case "delete":
			_, err = x.Delete(t.ctx, id, branch, ids, msg("delete"))
		case "compact":
			_, err = x.Compact(t.ctx, id, branch, ids, vectors, msg("compact"))
		case "add-vectors":
			_, err = x.AddVectors(t.ctx, p.Name, branch, ids, msg("vectors"))
		case "delete-vectors":
			_, err = x.DeleteVectors(t.ctx, p.Name, branch, ids, msg("vectors"))
		}
		return err
	})
	return v
}

var c19RespFormats = []string{"iface", "zng", "zson", "zjson", "json", "ndjson", "csv"}

// formatLike renders values the way the service renders a response body.
func formatLike(format string, vals []zed.Value) ([]byte, error) {
	var buf bytes.Buffer
	var w zio.WriteCloser
	var err error
	switch format {
	case "zjson":
		w = queryio.NewZJSONWriter(&buf)
	case "json":
		w = jsonio.NewArrayWriter(zio.NopCloser(&buf))
	case "ndjson":
		w = jsonio.NewWriter(zio.NopCloser(&buf), jsonio.WriterOpts{})
	default:
		w, err = anyio.NewWriter(zio.NopCloser(&buf), anyio.WriterOpts{Format: format})
	}
	if err != nil {
		return nil, err
	}
	for _, v := range vals {
		if err := w.Write(v); err != nil {
			return nil, err
		}
	}
	if err := w.Close(); err != nil {
		return nil, err
	}
	return buf.Bytes(), nil
}

type rawResult struct {
	status   int
	body     []byte
	readErr  error
	reqID    string
	lateErr  string // from /query/status
	lines    []string
	parseErr error
}

// rawQuery posts a query asking for a response format; cut >= 0 makes the
// client go away after that many bytes.
func (t *twins) rawQuery(src, format string, ctrl bool, cut int) (*rawResult, error) {
	path := "/query?ctrl=F"
	if ctrl {
		path = "/query?ctrl=T"
	}
	req := t.conn.NewRequest(t.ctx, http.MethodPost, path, api.QueryRequest{Query: src})
	mt, err := api.FormatToMediaType(format)
	if err != nil {
		return nil, err
	}
	req.Header.Set("Accept", mt)
	res, err := t.conn.Do(req)
	if err != nil {
		return nil, err
	}
	rr := &rawResult{status: res.StatusCode, reqID: res.Header.Get(api.RequestIDHeader)}
	if cut >= 0 {
		rr.body, rr.readErr = io.ReadAll(io.LimitReader(res.Body, int64(cut)))
		res.Body.Close()
		return rr, nil
	}
	rr.body, rr.readErr = io.ReadAll(res.Body)
	res.Body.Close()
	if rr.reqID != "" {
		sreq := t.conn.NewRequest(t.ctx, http.MethodGet, "/query/status/"+rr.reqID, nil)
		sreq.Header.Set("Accept", api.MediaTypeJSON)
		if sres, err := t.conn.Do(sreq); err == nil {
			b, _ := io.ReadAll(sres.Body)
			sres.Body.Close()
			var qe api.QueryError
			if json.Unmarshal(b, &qe) == nil {
				rr.lateErr = qe.Error
			}
		}
	}
	return rr, nil
}

func (t *twins) genProgram(p *c19Pool, branch string) (string, bool) {
	wl := t.wl
	from := fmt.Sprintf("from %s@%s", p.Name, branch)
	switch wl.Pick(4, 3, 2, 2, 2) {
	case 0:
		return from + " | sort u", true
	case 1:
		return fmt.Sprintf("%s | %s | sort u", from, GenPred(wl, &p.Spec, p.KeyRange, t.nextU, 1)), true
	case 2:
		// (two aggregates: "count() by <field>" alone is the shape the planner
		// hands to the vector runtime, whose known findings are C09's)
		return from + " | count(), max(u) by d | sort d", false // 1 and 1. tie
	case 3:
		return from + " | cut u, d | sort -r u | head 7", true
	default:
		return from, false
	}
}

func valuesOf(x lakeapi.Interface, ctx context.Context, src string) ([]zed.Value, error) {
	q, err := x.Query(ctx, nil, src)
	if err != nil {
		return nil, err
	}
	defer q.Pull(true)
	var vals []zed.Value
	for {
		b, err := q.Pull(false)
		if err != nil {
			return vals, err
		}
		if b == nil {
			return vals, nil
		}
		for _, v := range b.Values() {
			vals = append(vals, v.Copy())
		}
		b.Unref()
	}
}

func (t *twins) opQuery(p *c19Pool, branch string, faulty bool) *kernel.Violation {
	wl := t.wl
	src, ordered := t.genProgram(p, branch)
	format := c19RespFormats[wl.Intn(len(c19RespFormats))]
	ctrl := format == "zng" && wl.Chance(1, 2)
	if faulty && t.fl.Chance(1, 3) {
		return t.opDamagedQuery(p, branch, format)
	}
	cut := -1
	if faulty && format != "iface" && t.fl.Chance(1, 4) {
		cut = t.fl.Intn(200)
		t.out.Fault("client-drops-response")
		t.desc.Faults++
	}
	op := c19Op{Kind: "query", Arg: fmt.Sprintf("%q as %s ctrl=%v cut=%d", src, format, ctrl, cut)}
	valsA, errA := valuesOf(t.A, t.ctx, src)
	op.ErrA = normErr(errA)
	if format == "iface" {
		valsB, errB := valuesOf(t.B, t.ctx, src)
		op.ErrB = normErr(errB)
		t.record(op)
		if (errA == nil) != (errB == nil) {
			return kernel.Violatef("C19:verdict-differs:query", "query %q: direct access says %q, the service says %q", src, normErr(errA), normErr(errB))
		}
		if errA != nil {
			return nil
		}
		return compareLines("C19:result-differs:query:iface", src, ordered, zsonLines(valsA), zsonLines(valsB))
	}
	if cut >= 0 {
		if _, err := t.rawQuery(src, format, ctrl, cut); err != nil && errA == nil {
			op.ErrB = normErr(err)
		}
		// The same query again, read to the end, must be unaffected.
		cut = -1
	}
	rr, errB := t.rawQuery(src, format, ctrl, -1)
	op.ErrB = normErr(errB)
	t.record(op)
	if errA != nil {
		// The service may tell its client in any of its ways: a non-2xx
		// status, a broken body, an in-band error frame, the status endpoint.
		told := normErr(errB)
		if told == "" && rr != nil {
			told = t.serviceError(rr, format)
		}
		if told == "" {
			return kernel.Violatef("C19:verdict-differs:query", "query %q (%s response): direct access says %q, the service's client is told nothing", src, format, normErr(errA))
		}
		return nil
	}
	if errB != nil {
		return kernel.Violatef("C19:verdict-differs:query", "query %q (%s response): direct access succeeds, the service says %q", src, format, normErr(errB))
	}
	var want []byte
	if format != "zng" {
		var ferr error
		if want, ferr = formatLike(format, valsA); ferr != nil {
			// The values cannot be written in this format (CSV over
			// several record types): the service's client must hear of it.
			t.out.Probe("format-rejects-values:" + format)
			if rr.readErr == nil && rr.lateErr == "" && rr.status/100 == 2 {
				return kernel.Violatef("C19:late-error-dropped:"+format, "query %q: formatting the result as %s fails directly (%v); the service's client is told nothing (status %d, clean end of body, empty query status)", src, format, ferr, rr.status)
			}
			return nil
		}
	}
	if rr.readErr != nil || rr.lateErr != "" {
		return kernel.Violatef("C19:verdict-differs:query", "query %q (%s response) succeeds directly; through the service the body ends with %v and the status endpoint reports %q", src, format, rr.readErr, rr.lateErr)
	}
	if format == "zng" {
		sc, err := queryio.NewScanner(t.ctx, io.NopCloser(bytes.NewReader(rr.body)))
		if err != nil {
			return kernel.Violatef("C19:response-unreadable:zng", "query %q: %v", src, err)
		}
		var valsB []zed.Value
		for {
			b, err := sc.Pull(false)
			if err != nil {
				return kernel.Violatef("C19:response-unreadable:zng", "query %q: the zng response does not decode: %v", src, err)
			}
			if b == nil {
				break
			}
			for _, v := range b.Values() {
				valsB = append(valsB, v.Copy())
			}
		}
		return compareLines("C19:result-differs:query:zng", src, ordered, zsonLines(valsA), zsonLines(valsB))
	}
	if ordered {
		if !bytes.Equal(want, rr.body) {
			return kernel.Violatef("C19:result-differs:query:"+format, "query %q: the %s response body differs from the directly obtained values formatted as %s:\n direct:  %s\n service: %s", src, format, format, clipStr(string(want), 400), clipStr(string(rr.body), 400))
		}
		return nil
	}
	if format == "json" {
		return nil // one array; order is not defined for this program
	}
	if format == "zjson" {
		// Type ids in ZJSON are numbered in order of appearance: compare
		// the decoded values.
		zr, err := anyio.NewReaderWithOpts(zed.NewContext(), bytes.NewReader(rr.body), nil, anyio.ReaderOpts{Format: "zjson"})
		if err != nil {
			return kernel.Violatef("C19:response-unreadable:zjson", "query %q: %v", src, err)
		}
		defer zr.Close()
		var got []string
		for {
			v, err := zr.Read()
			if err != nil {
				return kernel.Violatef("C19:response-unreadable:zjson", "query %q: the zjson response does not decode: %v", src, err)
			}
			if v == nil {
				break
			}
			got = append(got, zson.FormatValue(*v))
		}
		return compareLines("C19:result-differs:query:zjson", src, false, zsonLines(valsA), got)
	}
	return compareLines("C19:result-differs:query:"+format, src, false, strings.Split(string(want), "\n"), strings.Split(string(rr.body), "\n"))
}

// serviceError says how, if at all, a completed raw query told its client
// that it failed.
func (t *twins) serviceError(rr *rawResult, format string) string {
	switch {
	case rr.status/100 != 2:
		return fmt.Sprintf("status %d", rr.status)
	case rr.readErr != nil:
		return "body: " + rr.readErr.Error()
	case rr.lateErr != "":
		return "status endpoint: " + rr.lateErr
	case format == "zng":
		if sc, err := queryio.NewScanner(t.ctx, io.NopCloser(bytes.NewReader(rr.body))); err == nil {
			for {
				b, err := sc.Pull(false)
				if err != nil {
					return "in-band: " + err.Error()
				}
				if b == nil {
					break
				}
			}
		}
	}
	return ""
}

func clipStr(s string, n int) string {
	if len(s) > n {
		return s[:n] + fmt.Sprintf("... (%d bytes)", len(s))
	}
	return s
}

func zsonLines(vals []zed.Value) []string {
	out := make([]string, len(vals))
	for i, v := range vals {
		out[i] = zson.FormatValue(v)
	}
	return out
}

func compareLines(sig, src string, ordered bool, a, b []string) *kernel.Violation {
	if !ordered {
		a, b = append([]string(nil), a...), append([]string(nil), b...)
		sort.Strings(a)
		sort.Strings(b)
	}
	if strings.Join(a, "\n") != strings.Join(b, "\n") {
		return kernel.Violatef(sig, "%q: the service's answer differs from direct access:\n direct (%d):  %s\n service (%d): %s", src, len(a), clipLines(a, 12), len(b), clipLines(b, 12))
	}
	return nil
}

// opDamagedQuery loses or truncates the same data object in both lakes, runs
// the same scan on both and restores the files.  If the direct scan reports
// an error, the service must let its client know too: a non-2xx status, a
// broken body, an in-band error, or the query-status endpoint.
func (t *twins) opDamagedQuery(p *c19Pool, branch, format string) *kernel.Violation {
	fl := t.fl
	k := fl.Intn(8)
	truncate := fl.Chance(1, 2)
	type saved struct {
		path string
		data []byte
	}
	var restore []saved
	if !t.sameLayout(p.Name, branch) {
		return nil
	}
	defer func() {
		for _, s := range restore {
			os.WriteFile(s.path, s.data, 0o644)
		}
	}()
	for _, side := range []struct {
		x   lakeapi.Interface
		dir string
	}{{t.A, t.dirA}, {t.B, t.dirB}} {
		objs, err := t.objects(side.x, p.Name, branch)
		if err != nil || len(objs) == 0 {
			return nil
		}
		id, err := t.poolID(side.x, p.Name)
		if err != nil {
			return nil
		}
		path := filepath.Join(side.dir, id.String(), "data", objs[k%len(objs)].id.String()+".zng")
		data, err := os.ReadFile(path)
		if err != nil {
			// Vacuumed through another branch: nothing left to damage.
			t.out.Probe("object-to-damage-already-vacuumed")
			return nil
		}
		restore = append(restore, saved{path, data})
		if truncate {
			os.WriteFile(path, data[:len(data)/2], 0o644)
		} else {
			os.Remove(path)
		}
	}
	t.out.Fault(map[bool]string{true: "data-object-truncated", false: "data-object-lost"}[truncate])
	t.desc.Faults++
	src := fmt.Sprintf("from %s@%s", p.Name, branch)
	op := c19Op{Kind: "query-over-damaged-object", Arg: fmt.Sprintf("%q as %s, object %d %s", src, format, k, map[bool]string{true: "truncated", false: "lost"}[truncate])}
	valsA, errA := valuesOf(t.A, t.ctx, src)
	op.ErrA = normErr(errA)
	var told string
	if format == "iface" {
		_, errB := valuesOf(t.B, t.ctx, src)
		told = normErr(errB)
	} else {
		ctrl := fl.Chance(1, 2)
		op.Arg += fmt.Sprintf(" ctrl=%v", ctrl)
		rr, errB := t.rawQuery(src, format, ctrl, -1)
		if errB != nil {
			told = normErr(errB)
		} else {
			told = t.serviceError(rr, format)
		}
		if errA == nil && format != "zng" {
			// What the direct side would have to write must be writable in
			// this format too (CSV over several record types is not).
			if _, ferr := formatLike(format, valsA); ferr != nil {
				errA = ferr
			}
		}
	}
	op.ErrB = told
	t.record(op)
	if errA != nil && told == "" {
		return kernel.Violatef("C19:late-error-dropped:"+format, "%s: direct access reports %q; the service's client is told nothing (status 2xx, clean end of body, no in-band error, empty query status)", op.Arg, normErr(errA))
	}
	if errA == nil && told != "" {
		return kernel.Violatef("C19:verdict-differs:query-over-damaged-object", "%s: direct access succeeds, the service reports %q", op.Arg, told)
	}
	if errA != nil {
		t.out.Probe("late-error-reported:" + format)
	}
	return nil
}

// compareState compares what can be observed of the two lakes.
func (t *twins) compareState(full bool) *kernel.Violation {
	observe := func(x lakeapi.Interface) ([]string, error) {
		var st []string
		pools, err := t.queryLines(x, "from :pools | drop id, ts | sort name")
		if err != nil {
			return nil, fmt.Errorf("listing pools: %w", err)
		}
		st = append(st, "pools: "+strings.Join(pools, " "))
		for _, p := range t.pools {
			if !full && p != t.touched {
				continue
			}
			brs, err := t.queryLines(x, fmt.Sprintf("from %s:branches | yield branch.name | sort this", p.Name))
			if err != nil {
				return nil, fmt.Errorf("listing branches of %s: %w", p.Name, err)
			}
			st = append(st, fmt.Sprintf("%s branches: %s", p.Name, strings.Join(brs, " ")))
			for _, b := range p.Branches {
				vals, err := t.queryLines(x, fmt.Sprintf("from %s@%s | sort u", p.Name, b))
				if err != nil {
					return nil, fmt.Errorf("reading %s@%s: %w", p.Name, b, err)
				}
				st = append(st, fmt.Sprintf("%s@%s: %d values: %s", p.Name, b, len(vals), strings.Join(vals, " ")))
				objs, err := t.objects(x, p.Name, b)
				if err != nil {
					return nil, fmt.Errorf("listing objects of %s@%s: %w", p.Name, b, err)
				}
				var sigs []string
				for _, o := range objs {
					sigs = append(sigs, o.sig)
				}
				st = append(st, fmt.Sprintf("%s@%s objects: %s", p.Name, b, strings.Join(sigs, "; ")))
				_, n, err := t.commitAt(x, p.Name, b, 0)
				if err != nil && err.Error() != "empty log" {
					return nil, fmt.Errorf("log of %s@%s: %w", p.Name, b, err)
				}
				st = append(st, fmt.Sprintf("%s@%s log: %d commits", p.Name, b, n))
				// What a vacuum would still remove says whether an earlier
				// vacuum really removed anything.
				ids, err := x.Vacuum(t.ctx, p.Name, b, true)
				st = append(st, fmt.Sprintf("%s@%s vacuumable: %d objects (error: %v)", p.Name, b, len(ids), err != nil))
			}
		}
		return st, nil
	}
	a, errA := observe(t.A)
	b, errB := observe(t.B)
	if errA != nil || errB != nil {
		if (errA == nil) != (errB == nil) {
			return kernel.Violatef("C19:state-unobservable", "after %d operations the state can be read %s: direct: %v; service: %v", len(t.desc.Ops), map[bool]string{true: "only through the service", false: "only directly"}[errA != nil], errA, errB)
		}
		return nil
	}
	for i := range a {
		if i >= len(b) || a[i] != b[i] {
			var bi string
			if i < len(b) {
				bi = b[i]
			}
			if i < len(b) && strings.Contains(a[i], " objects: ") && strings.Contains(b[i], " objects: ") {
				// Same values (checked on the line before), cut into
				// objects differently: allowed.
				t.out.Probe("object-layouts-differ")
				continue
			}
			what := strings.SplitN(a[i], ":", 2)[0]
			if strings.Contains(what, " ") {
				what = strings.Fields(what)[len(strings.Fields(what))-1]
			} else if strings.Contains(what, "@") {
				what = "content"
			}
			return kernel.Violatef("C19:state-differs:"+what, "after %d operations the two lakes differ:\n direct:  %s\n service: %s", len(t.desc.Ops), clipStr(a[i], 900), clipStr(bi, 900))
		}
	}
	return nil
}
