package lakesim

import (
	"errors"
	"fmt"
	"regexp"
	"sort"
	"strings"

	"github.com/brimdata/super/lake"
	"github.com/brimdata/super/lake/data"
	"github.com/segmentio/ksuid"
	"verifsim/kernel"
)

// C17: crash at any mutating storage step of the last operation of a history,
// reopen cold, check atomicity / durability / usability, run a follow-up
// workload, optionally crash again inside the follow-up.

var ksuidRe = regexp.MustCompile(`[0-9A-Za-z]{27}`)
var numRe = regexp.MustCompile(`/[0-9]+\.zng`)
var sizeRe = regexp.MustCompile(` \([0-9]+ bytes\)`)
var tornRe = regexp.MustCompile(` torn after [0-9]+ bytes`)

// crashSite turns a step description into a class name stable across seeds.
func crashSite(desc string) string {
	torn := tornRe.MatchString(desc)
	s := tornRe.ReplaceAllString(desc, "")
	s = sizeRe.ReplaceAllString(s, "")
	s = strings.Replace(s, "/simlake/", "", 1)
	s = ksuidRe.ReplaceAllString(s, "*")
	s = numRe.ReplaceAllString(s, "/N.zng")
	s = strings.ReplaceAll(s, " ", ":")
	if torn {
		s += ":torn"
	}
	return s
}

type c17Desc struct {
	seqDesc
	Victim   Op     `json:"victim"`
	Steps    int    `json:"victim_steps"`
	CrashAt  int    `json:"crash_at_step"`
	Tear     int    `json:"tear_eighths"`
	Site     string `json:"crash_site,omitempty"`
	Outcome  string `json:"outcome,omitempty"`
	Crash2At int    `json:"second_crash_at_step,omitempty"`
	Site2    string `json:"second_crash_site,omitempty"`
}

func runC17(tape *kernel.Tape) *kernel.Outcome {
	var desc *c17Desc
	out := runInWorld(tape, "C17", func(w *World) *kernel.Violation {
		desc = &c17Desc{}
		v := c17Body(w, desc)
		w.Out.Desc = desc
		return v
	})
	if desc != nil {
		if out.Meta == nil {
			out.Meta = map[string]int{}
		}
		out.Meta["victim_steps"] = desc.Steps
		out.Meta["filefs"] = 0
		if desc.Storage == "filefs" {
			out.Meta["filefs"] = 1
		}
	}
	return out
}

func c17Body(w *World, desc *c17Desc) *kernel.Violation {
	sig := "C17"
	fl := w.Fl
	crashAt := int(fl.Draw(1 << 16))
	tear := int(fl.Draw(8))
	crash2 := int(fl.Draw(1 << 16))
	desc.CrashAt, desc.Tear, desc.Crash2At = crashAt, tear, crash2
	victimKind := w.Kn.Pick(12, 1, 1, 1, 1) // seq op, init, pool-create, pool-rename, pool-drop

	if victimKind == 1 {
		return c17Init(w, desc, crashAt, tear)
	}
	r, v := seqSetup(w, sig, &desc.seqDesc)
	if v != nil {
		return v
	}
	r.BranchOps = w.Kn.Chance(1, 2)
	// In half of the runs nothing but the operations themselves reads the
	// lake before the victim, and the victim runs in a fresh process, so that
	// it has to derive (and write) snapshots itself.
	coldVictim := w.Kn.Chance(1, 2)
	r.NoClientScans = coldVictim
	nprefix := w.Kn.Range(0, 7)
	if w.Kn.Chance(1, 6) {
		// Long enough for the branches journal to write and then read its
		// own snap.zng (done when more than 10 entries are new).
		nprefix = w.Kn.Range(11, 26)
	}
	for i := 0; i < nprefix; i++ {
		op, v := r.Step(w.Wl, i, false)
		desc.Ops = append(desc.Ops, op)
		if v != nil {
			// A fault-free prefix that already misbehaves is C14's
			// business; do not report it under C17.
			w.Out.Bucket = "prefix-misbehaves"
			return nil
		}
	}
	if coldVictim {
		nc, err := w.Open(r.E.Ctx, "cv", true)
		if err != nil {
			return kernel.Violatef("C17:unexpected-error:open", "opening the lake for the victim failed without any fault: %v", err)
		}
		r.C = nc
	}
	r.NoClientScans = false
	h := r.C.H
	h.KeepLog = true
	arm := func() {
		if crashAt > 0 {
			h.CrashAt = h.Steps() + crashAt
			h.Tear = tear
		}
	}
	before := h.Steps()
	var postCheck func() *kernel.Violation
	switch victimKind {
	case 0:
		op := r.GenOp(w.Wl)
		ex, err := r.Expectation(w.Wl, &op)
		if err != nil || r.touchesVacuumed(&op, ex) {
			w.Out.Bucket = "victim-skipped"
			return nil
		}
		desc.Victim = op
		arm()
		commit, vacuumed, err := r.Issue(r.C, &op, ex)
		desc.Steps = h.Steps() - before
		postCheck = func() *kernel.Violation { return c17AfterSeqOp(r, &op, ex, commit, vacuumed, err, desc) }
	case 2, 3, 4:
		op := Op{Kind: []string{"", "", "pool-create", "pool-rename", "pool-drop"}[victimKind], Other: "p2"}
		desc.Victim = op
		spec2 := GenPoolSpec(w.Kn, "p2")
		arm()
		var err error
		var id2 ksuid.KSUID
		switch op.Kind {
		case "pool-create":
			id2, err = r.C.CreatePool(r.E.Ctx, &spec2)
		case "pool-rename":
			err = r.C.API.RenamePool(r.E.Ctx, r.PM.ID, "p2")
		case "pool-drop":
			err = r.C.API.RemovePool(r.E.Ctx, r.PM.ID)
		}
		desc.Steps = h.Steps() - before
		postCheck = func() *kernel.Violation { return c17AfterPoolOp(r, &op, &spec2, id2, err, desc) }
	}
	crashed := h.Dead()
	if crashed {
		desc.Site = crashSite(h.CrashedAt)
		w.Out.Fault("crash")
		w.Out.Probe("crash-site:" + desc.Site)
		w.Out.Probe("victim:" + desc.Victim.Kind)
		if strings.Contains(h.CrashedAt, "torn after") {
			w.Out.Fault("torn-write")
		}
		if strings.Contains(h.CrashedAt, "storage.file.PutIfNotExists") {
			w.Out.Fault("crash-in-putifnotexists-gap")
		}
	}
	w.Out.Nontrivial = crashed
	// Restart: a fresh process with cold caches on whatever survived.
	nc, err := w.Open(r.E.Ctx, "c1", true)
	if err != nil {
		return c17Viol(desc, "lake-unopenable", "after the crash the lake cannot be opened: %v", err)
	}
	r.C = nc
	if v := postCheck(); v != nil {
		return c17Tag(desc, v)
	}
	// Follow-up workload on the same pool and branch.
	return c17Tag(desc, c17FollowUp(w, r, desc, crash2))
}

func c17Viol(desc *c17Desc, symptom, format string, a ...any) *kernel.Violation {
	site := desc.Site
	if site == "" {
		site = "no-crash"
	}
	msg := fmt.Sprintf(format, a...)
	return &kernel.Violation{Signature: "C17:" + symptom + "@" + site,
		Message: fmt.Sprintf("victim %s, crash at step %d of %d (%s): %s", desc.Victim.Kind, desc.CrashAt, desc.Steps, desc.Site, msg)}
}

// c17Tag rewrites a violation coming from the shared checkers so that its
// signature names the crash site.
func c17Tag(desc *c17Desc, v *kernel.Violation) *kernel.Violation {
	if v == nil {
		return nil
	}
	if strings.Contains(v.Signature, "@") {
		return v
	}
	site := desc.Site
	if site == "" {
		site = "no-crash"
	}
	if desc.Site2 != "" {
		site += "+" + desc.Site2
	}
	sym := strings.TrimPrefix(v.Signature, "C17:")
	return &kernel.Violation{Signature: "C17:" + sym + "@" + site,
		Message: fmt.Sprintf("victim %s %s, crash at step %d of %d (%s)%s: %s", desc.Victim.Kind, desc.Victim.Branch, desc.CrashAt, desc.Steps, desc.Site,
			map[bool]string{true: fmt.Sprintf(", second crash at follow-up step %d (%s)", desc.Crash2At, desc.Site2), false: ""}[desc.Site2 != ""], v.Message)}
}

// c17AfterSeqOp decides whether the victim took effect and checks the state.
func c17AfterSeqOp(r *SeqRun, op *Op, ex *Expect, commit ksuid.KSUID, vacuumed []ksuid.KSUID, opErr error, desc *c17Desc) *kernel.Violation {
	when := fmt.Sprintf("after the crash in %s %s", op.Kind, op.Branch)
	crashed := desc.Site != ""
	if !crashed {
		// The crash step lies beyond the operation: ordinary outcome.
		if opErr != nil {
			if !ex.MayFail && !ex.MustFail {
				return kernel.Violatef("C17:unexpected-error:"+op.Kind, "%s failed without any fault: %v", op.Kind, opErr)
			}
			desc.Outcome = "failed legitimately"
			return r.VerifyFailed(op, ex, opErr, when)
		}
		desc.Outcome = "completed"
		if ex.Target == "" {
			return r.VerifyNoCommit(op, ex, vacuumed, when)
		}
		return r.Verify(op, ex, commit, when)
	}
	// Crashed.  Either none or all of the effect.
	switch op.Kind {
	case "vacuum":
		// Vacuum changes no branch; whatever subset of the vacuumable
		// objects is gone is gone.
		obs, err := r.E.W.Open(r.E.Ctx, "observer", false)
		if err != nil {
			return kernel.Violatef("C17:lake-unopenable", "%v", err)
		}
		pool, err := obs.Root.OpenPool(r.E.Ctx, r.PM.ID)
		if err != nil {
			return kernel.Violatef("C17:pool-unopenable", "%v", err)
		}
		for id := range r.Added {
			if ok, _ := obs.H.Exists(r.E.Ctx, data.SequenceURI(pool.DataPath, id)); !ok && !r.Vacuumed[id] {
				if r.Br[op.Branch].Objs[id] {
					return kernel.Violatef("C17:vacuum-live-object", "%s: object %s of the tip snapshot is gone", when, id)
				}
				r.Vacuumed[id] = true
			}
		}
		desc.Outcome = "vacuum partially done"
		return r.CheckUntouched("", when)
	case "branch-create":
		tip, err := r.E.TipOf(r.PM, op.Other)
		if err != nil {
			desc.Outcome = "none"
			return r.CheckUntouched("", when)
		}
		desc.Outcome = "all"
		if tip != ex.At {
			return kernel.Violatef("C17:branch-create-wrong-tip", "%s: branch %q exists with tip %s, expected %s", when, op.Other, tip, ex.At)
		}
		return r.VerifyNoCommit(op, ex, nil, when)
	case "branch-drop":
		if _, err := r.E.TipOf(r.PM, op.Branch); err != nil {
			desc.Outcome = "all"
			delete(r.Br, op.Branch)
		} else {
			desc.Outcome = "none"
		}
		return r.CheckUntouched("", when)
	}
	b := r.Br[ex.Target]
	tip, err := r.E.TipOf(r.PM, b.Name)
	if err != nil {
		return kernel.Violatef("C17:branch-unreadable", "%s: cannot read the tip of %q: %v", when, b.Name, err)
	}
	if tip == b.Tip {
		desc.Outcome = "none"
		r.E.W.Out.Probe("atomic:none")
		return r.CheckUntouched("", when)
	}
	// A new tip: the whole effect must be there, exactly as if acknowledged.
	desc.Outcome = "all (unacknowledged commit became visible)"
	r.E.W.Out.Probe("atomic:all")
	if ex.MustFail {
		return kernel.Violatef("C17:invalid-op-took-effect", "%s: the branch moved to %s although the operation was invalid", when, tip)
	}
	if v := r.Verify(op, ex, tip, when); v != nil {
		return v
	}
	return r.CheckUntouched(ex.Target, when)
}

func poolNames(c *Client, e *Env) (map[string]ksuid.KSUID, error) {
	list, err := c.Root.ListPools(e.Ctx)
	if err != nil {
		return nil, err
	}
	out := map[string]ksuid.KSUID{}
	for _, p := range list {
		if _, dup := out[p.Name]; dup {
			return nil, fmt.Errorf("pool name %q listed twice", p.Name)
		}
		out[p.Name] = p.ID
	}
	return out, nil
}

func c17AfterPoolOp(r *SeqRun, op *Op, spec2 *PoolSpec, id2 ksuid.KSUID, opErr error, desc *c17Desc) *kernel.Violation {
	when := "after the crash in " + op.Kind
	obs, err := r.E.W.Open(r.E.Ctx, "observer", false)
	if err != nil {
		return kernel.Violatef("C17:lake-unopenable", "%v", err)
	}
	names, err := poolNames(obs, r.E)
	if err != nil {
		return kernel.Violatef("C17:pool-table-unreadable", "%s: %v", when, err)
	}
	crashed := desc.Site != ""
	var keys []string
	for k := range names {
		keys = append(keys, k)
	}
	sort.Strings(keys)
	state := strings.Join(keys, ",")
	pre := "p1"
	post := map[string]string{"pool-create": "p1,p2", "pool-rename": "p2", "pool-drop": ""}[op.Kind]
	if !crashed {
		if opErr != nil {
			return kernel.Violatef("C17:unexpected-error:"+op.Kind, "%s failed without any fault: %v", op.Kind, opErr)
		}
		pre = post
	}
	if state != pre && state != post {
		return kernel.Violatef("C17:pool-table-not-atomic", "%s: pools are [%s], expected [%s] or [%s]", when, state, pre, post)
	}
	desc.Outcome = map[bool]string{true: "all", false: "none"}[state == post]
	switch {
	case op.Kind == "pool-rename" && state == post:
		if names["p2"] != r.PM.ID {
			return kernel.Violatef("C17:pool-table-not-atomic", "%s: p2 has id %s, expected %s", when, names["p2"], r.PM.ID)
		}
		r.PM.Spec.Name = "p2"
	case op.Kind == "pool-drop" && state == post:
		// The pool is gone: create it anew so that the follow-up has a pool.
		id, err := r.C.CreatePool(r.E.Ctx, &r.PM.Spec)
		if err != nil {
			return kernel.Violatef("C17:followup-failed:create-pool", "%s: re-creating pool %q after its removal failed: %v", when, r.PM.Spec.Name, err)
		}
		pm := &PoolM{Spec: r.PM.Spec, ID: id}
		nr := NewSeqRun(r.E, r.C, pm, r.KeyRange, r.Sig)
		*r = *nr
		return nil
	case op.Kind == "pool-create" && state == post:
		// The new pool must be usable.
		pm2 := &PoolM{Spec: *spec2, ID: names["p2"]}
		r2 := NewSeqRun(r.E, r.C, pm2, r.KeyRange, "C17")
		if _, v := r2.Do(r.E.W.Wl, Op{Kind: "load", Branch: "main", N: 3}, 0, false); v != nil {
			v.Message = "new pool p2: " + v.Message
			return v
		}
	}
	return r.CheckUntouched("", when)
}

// c17FollowUp: subsequent operations on the same pool and branch succeed and
// match the model.
func c17FollowUp(w *World, r *SeqRun, desc *c17Desc, crash2 int) *kernel.Violation {
	names := r.branchNames()
	bname := "main"
	if desc.Victim.Branch != "" {
		if _, ok := r.Br[desc.Victim.Branch]; ok {
			bname = desc.Victim.Branch
		}
	}
	if desc.Victim.Kind == "merge" {
		bname = desc.Victim.Other
	}
	if _, ok := r.Br[bname]; !ok {
		bname = names[0]
	}
	if r.anyVacuumed(r.Br[bname].Objs) {
		// The branch refers to vacuumed objects (by the history's own
		// doing); use a clean one.
		w.Out.Bucket = "followup-on-vacuumed-branch-skipped"
		return nil
	}
	do := func(i int, op Op) *kernel.Violation {
		_, v := r.Do(w.Wl, op, 100+i, false)
		if v != nil && strings.Contains(v.Signature, "unexpected-error") {
			v.Signature = "C17:followup-failed:" + op.Kind
		}
		return v
	}
	// Optional second crash inside the first follow-up operation.
	if crash2 > 0 {
		h := r.C.H
		op := Op{Kind: "load", Branch: bname, N: 4}
		ex, _ := r.Expectation(w.Wl, &op)
		before := h.Steps()
		h.CrashAt = before + crash2
		commit, _, err := r.Issue(r.C, &op, ex)
		if h.Dead() {
			desc.Site2 = crashSite(h.CrashedAt)
			w.Out.Fault("second-crash")
			nc, oerr := w.Open(r.E.Ctx, "c2", true)
			if oerr != nil {
				return kernel.Violatef("C17:lake-unopenable", "after the second crash the lake cannot be opened: %v", oerr)
			}
			r.C = nc
			b := r.Br[bname]
			tip, terr := r.E.TipOf(r.PM, bname)
			if terr != nil {
				return kernel.Violatef("C17:branch-unreadable", "after the second crash: %v", terr)
			}
			if tip != b.Tip {
				if v := r.Verify(&op, ex, tip, "after the second crash"); v != nil {
					return v
				}
			}
		} else {
			h.CrashAt = 0
			if err != nil {
				return kernel.Violatef("C17:followup-failed:load", "follow-up load on %q failed: %v", bname, err)
			}
			if v := r.Verify(&op, ex, commit, "follow-up load"); v != nil {
				return v
			}
		}
	}
	// What a user does first after a crash: the same thing again (judged by
	// the model like any other operation: it is applied, or refused where
	// the first attempt had gone through).
	switch desc.Victim.Kind {
	case "delete", "delete-where", "compact", "vector-add", "vector-del":
		retry := desc.Victim
		retry.Result = ""
		if _, ok := r.Br[retry.Branch]; ok && !r.anyVacuumed(r.Br[retry.Branch].Objs) {
			if v := do(-1, retry); v != nil {
				return v
			}
			w.Out.Probe("victim-operation-retried")
		}
	}
	if v := do(0, Op{Kind: "load", Branch: bname, N: 5}); v != nil {
		return v
	}
	if v := do(1, Op{Kind: "load", Branch: bname, N: 2}); v != nil {
		return v
	}
	n := len(r.Br[bname].Objs)
	if n >= 2 {
		if v := do(2, Op{Kind: "compact", Branch: bname, Objs: []int{0, n - 1}}); v != nil {
			return v
		}
	}
	if v := do(3, Op{Kind: "delete", Branch: bname, Objs: []int{0}}); v != nil {
		return v
	}
	tipIdx := 0
	for i, c := range r.Acked {
		if c == r.Br[bname].Tip {
			tipIdx = i + 1
		}
	}
	if _, exists := r.Br["fu"]; !exists {
		if v := do(4, Op{Kind: "branch-create", Other: "fu", Commit: tipIdx}); v != nil {
			return v
		}
		if v := do(5, Op{Kind: "load", Branch: "fu", N: 2}); v != nil {
			return v
		}
		if v := do(6, Op{Kind: "branch-drop", Branch: "fu"}); v != nil {
			return v
		}
	}
	// A new pool can still be created.
	spec3 := PoolSpec{Name: "p3", KeyPath: "k"}
	if _, err := r.C.CreatePool(r.E.Ctx, &spec3); err != nil {
		return kernel.Violatef("C17:followup-failed:create-pool", "creating a new pool after recovery failed: %v", err)
	}
	w.Out.Probe("followup-completed")
	return nil
}

// c17Init: crash during lake creation.
func c17Init(w *World, desc *c17Desc, crashAt, tear int) *kernel.Violation {
	e := NewEnv(w)
	desc.Victim = Op{Kind: "init"}
	desc.Storage = w.Disk.Mode.String()
	w.Out.Bucket = w.Disk.Mode.String()
	h := w.Disk.NewHandle("c0", true)
	h.KeepLog = true
	if crashAt > 0 {
		h.CrashAt = crashAt
		h.Tear = tear
	}
	_, err := w.Create(e.Ctx, h)
	desc.Steps = h.Steps()
	if h.Dead() {
		desc.Site = crashSite(h.CrashedAt)
		w.Out.Fault("crash")
		w.Out.Nontrivial = true
	} else if err != nil {
		return c17Viol(desc, "unexpected-error:init", "lake init failed without a fault: %v", err)
	}
	c, err := w.Open(e.Ctx, "c1", true)
	if err != nil {
		if !errors.Is(err, lake.ErrNotExist) {
			return c17Viol(desc, "init-half-done", "after a crash during init the lake neither opens nor reports 'does not exist': %v", err)
		}
		desc.Outcome = "none"
		c, err = w.Create(e.Ctx, w.Disk.NewHandle("c1", true))
		if err != nil {
			return c17Viol(desc, "init-not-repeatable", "after a crash during init a second init fails: %v", err)
		}
	} else {
		desc.Outcome = "all"
	}
	spec := PoolSpec{Name: "p1", KeyPath: "k"}
	id, err := c.CreatePool(e.Ctx, &spec)
	if err != nil {
		return c17Viol(desc, "followup-failed:create-pool", "creating a pool after recovery failed: %v", err)
	}
	pm := &PoolM{Spec: spec, ID: id}
	r := NewSeqRun(e, c, pm, 20, "C17")
	if _, v := r.Do(w.Wl, Op{Kind: "load", Branch: "main", N: 3}, 0, false); v != nil {
		return c17Tag(desc, v)
	}
	w.Out.Probe("followup-completed")
	return nil
}

// expandC17 enumerates crash points along the victim's storage trace.
func expandC17(tier string, base *kernel.Outcome, rec map[string][]uint64, x *kernel.Stream) []map[string][]uint64 {
	n := base.Meta["victim_steps"]
	if n == 0 || base.Violation != nil {
		return nil
	}
	limit := 40
	if tier == "thorough" {
		limit = 400
	}
	var ks []int
	if n <= limit {
		for k := 1; k <= n; k++ {
			ks = append(ks, k)
		}
	} else {
		seen := map[int]bool{}
		for len(ks) < limit {
			k := 1 + x.Intn(n)
			if !seen[k] {
				seen[k] = true
				ks = append(ks, k)
			}
		}
	}
	var out []map[string][]uint64
	add := func(f []uint64) {
		c := map[string][]uint64{}
		for l, v := range rec {
			c[l] = v
		}
		c["faults"] = f
		out = append(out, c)
	}
	for _, k := range ks {
		add([]uint64{uint64(k), 0, 0})
		if base.Meta["filefs"] == 1 {
			add([]uint64{uint64(k), uint64(1 + x.Intn(7)), 0})
		}
		if x.Chance(1, 4) {
			// double crash: again inside the follow-up load
			add([]uint64{uint64(k), 0, uint64(1 + x.Intn(12))})
		}
	}
	return out
}
