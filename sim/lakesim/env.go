package lakesim

import (
	"bytes"
	"context"
	"fmt"
	"os"
	"sort"

	"github.com/brimdata/super"
	"github.com/brimdata/super/api"
	"github.com/brimdata/super/lake/data"
	"github.com/brimdata/super/lake/seekindex"
	"github.com/brimdata/super/order"
	"github.com/brimdata/super/pkg/field"
	"github.com/brimdata/super/pkg/storage"
	"github.com/brimdata/super/zio/zngio"
	"github.com/brimdata/super/zson"
	"github.com/segmentio/ksuid"
	"verifsim/kernel"
)

// ObjInfo is what the observer learned about one immutable data object by
// reading it: which values it holds, in file order.
type ObjInfo struct {
	ID ksuid.KSUID
	Us []int
}

// PoolM is the reference model of one pool.  The data content of the model is
// driven only by the harness's own operations; object ids are learned from the
// implementation and their contents verified when first seen.
type PoolM struct {
	Spec     PoolSpec
	ID       ksuid.KSUID
	Branches map[string]*BranchM
	// Content per acknowledged commit, as predicted by the model.
	Commits map[ksuid.KSUID][]int
	Order   []ksuid.KSUID // acknowledged commits in acknowledgement order
	Vacuum  map[ksuid.KSUID]bool
}

type BranchM struct {
	Name    string
	Tip     ksuid.KSUID
	Content map[int]bool
}

func (b *BranchM) Us() []int {
	out := make([]int, 0, len(b.Content))
	for u := range b.Content {
		out = append(out, u)
	}
	sort.Ints(out)
	return out
}

// Env couples a world with the model.
type Env struct {
	W     *World
	Ctx   context.Context
	Pools map[string]*PoolM
	Objs  map[ksuid.KSUID]*ObjInfo
	Recs  map[int]Rec
	NextU int
}

func NewEnv(w *World) *Env {
	return &Env{W: w, Ctx: context.Background(), Pools: map[string]*PoolM{}, Objs: map[ksuid.KSUID]*ObjInfo{}, Recs: map[int]Rec{}}
}

func (s *PoolSpec) SortKeys() order.SortKeys {
	o := order.Asc
	if s.Desc {
		o = order.Desc
	}
	var p field.Path
	switch s.KeyPath {
	case "this":
		p = field.Path{}
	default:
		p = field.Dotted(s.KeyPath)
	}
	return order.SortKeys{order.NewSortKey(o, p)}
}

func (s *PoolSpec) keyField() field.Path {
	if s.KeyPath == "this" {
		return field.Path{}
	}
	return field.Dotted(s.KeyPath)
}

// GenPoolSpec draws a pool configuration; the zero draws give the plainest
// pool (key k ascending, default threshold and stride).
func GenPoolSpec(s *kernel.Stream, name string) PoolSpec {
	spec := PoolSpec{Name: name, KeyPath: "k"}
	if s.Chance(1, 5) {
		spec.KeyPath = "n.k"
	}
	spec.Desc = s.Chance(1, 2)
	spec.Thresh = []int64{0, 1, 40, 150, 600, 3000}[s.Intn(6)]
	spec.Stride = []int{0, 1, 8, 32, 200}[s.Intn(5)]
	spec.MixedKeys = s.Chance(1, 3)
	return spec
}

// GenBatch draws n fresh records.
func (e *Env) GenBatch(s *kernel.Stream, spec *PoolSpec, n, keyRange int) []Rec {
	recs := make([]Rec, 0, n)
	for i := 0; i < n; i++ {
		e.NextU++
		r := GenRec(s, spec, e.NextU, keyRange)
		e.Recs[r.U] = r
		recs = append(recs, r)
	}
	return recs
}

var commitMsg = api.CommitMessage{Author: "sim", Body: "sim"}

// ---- operations issued by clients (thin wrappers over lake/api.Interface) ----

func (c *Client) CreatePool(ctx context.Context, spec *PoolSpec) (ksuid.KSUID, error) {
	return c.API.CreatePool(ctx, spec.Name, spec.SortKeys(), spec.Stride, spec.Thresh)
}

func (c *Client) Load(ctx context.Context, pool ksuid.KSUID, spec *PoolSpec, branch string, recs []Rec) (ksuid.KSUID, error) {
	zctx := zed.NewContext()
	r, err := Reader(zctx, spec, recs)
	if err != nil {
		panic(err)
	}
	return c.API.Load(ctx, zctx, pool, branch, r, commitMsg)
}

// ---- the observer ----

// ObserveSnapshot opens a cold lake handle and returns the objects and
// vectors of the snapshot at commit.
func (e *Env) ObserveSnapshot(pm *PoolM, commit ksuid.KSUID) ([]*data.Object, map[ksuid.KSUID]bool, *Client, error) {
	obs, err := e.W.Open(e.Ctx, "observer", false)
	if err != nil {
		return nil, nil, nil, fmt.Errorf("open lake: %w", err)
	}
	pool, err := obs.Root.OpenPool(e.Ctx, pm.ID)
	if err != nil {
		return nil, nil, obs, fmt.Errorf("open pool: %w", err)
	}
	if commit == ksuid.Nil {
		return nil, map[ksuid.KSUID]bool{}, obs, nil
	}
	snap, err := pool.Snapshot(e.Ctx, commit)
	if err != nil {
		return nil, nil, obs, fmt.Errorf("snapshot of %s: %w", commit, err)
	}
	objs := snap.SelectAll()
	vecs := map[ksuid.KSUID]bool{}
	for _, o := range objs {
		if snap.HasVector(o.ID) {
			vecs[o.ID] = true
		}
	}
	return objs, vecs, obs, nil
}

// keyOf returns the pool-key value of v (missing as null), as the data writer
// computes it.
func keyOf(spec *PoolSpec, v zed.Value) zed.Value {
	return v.DerefPath(spec.keyField()).MissingAsNull()
}

// LearnObject reads a data object once and checks its metadata against its
// contents.  sig is the signature prefix for violations.
func (e *Env) LearnObject(obs *Client, pm *PoolM, o *data.Object, sig string) (*ObjInfo, *kernel.Violation) {
	if info, ok := e.Objs[o.ID]; ok {
		if int(o.Count) != len(info.Us) {
			return info, kernel.Violatef(sig+":object-count", "object %s: metadata count %d, object holds %d values", o.ID, o.Count, len(info.Us))
		}
		return info, nil
	}
	pool, err := obs.Root.OpenPool(e.Ctx, pm.ID)
	if err != nil {
		return nil, kernel.Violatef(sig+":unreadable", "open pool: %v", err)
	}
	b, err := storageGet(e.Ctx, obs, data.SequenceURI(pool.DataPath, o.ID))
	if err != nil {
		return nil, kernel.Violatef(sig+":object-unreadable", "data object %s listed in snapshot cannot be read: %v", o.ID, err)
	}
	zr := zngio.NewReader(zed.NewContext(), bytes.NewReader(b))
	defer zr.Close()
	info := &ObjInfo{ID: o.ID}
	var keys []zed.Value
	var recs []Rec
	for {
		v, err := zr.Read()
		if err != nil {
			return nil, kernel.Violatef(sig+":object-unreadable", "data object %s: %v", o.ID, err)
		}
		if v == nil {
			break
		}
		u := UOf(*v)
		info.Us = append(info.Us, u)
		keys = append(keys, keyOf(&pm.Spec, *v).Copy())
		recs = append(recs, e.Recs[u])
	}
	e.Objs[o.ID] = info
	if os.Getenv("VERIF_DEBUG") != "" {
		s := ""
		for _, r := range recs {
			s += fmt.Sprintf(" %d:%s", r.U, r.keyString())
		}
		fmt.Fprintf(os.Stderr, "DEBUG object %s min=%s max=%s:%s\n", o.ID, zson.FormatValue(o.Min), zson.FormatValue(o.Max), s)
	}
	if int(o.Count) != len(info.Us) {
		return info, kernel.Violatef(sig+":object-count", "object %s: metadata count %d, object holds %d values", o.ID, o.Count, len(info.Us))
	}
	if int64(len(b)) != o.Size {
		return info, kernel.Violatef(sig+":object-size", "object %s: metadata size %d, file has %d bytes", o.ID, o.Size, len(b))
	}
	if len(keys) == 0 {
		return info, kernel.Violatef(sig+":object-empty", "object %s holds no values", o.ID)
	}
	// Key range: Min and Max are the smallest and largest key in ascending
	// terms whatever the pool order, i.e. for an ascending pool the first
	// and last key of the file and the reverse for a descending one.
	first, last := keys[0], keys[len(keys)-1]
	lo, hi := first, last
	if pm.Spec.Desc {
		lo, hi = last, first
	}
	if !sameValue(o.Min, lo) || !sameValue(o.Max, hi) {
		return info, kernel.Violatef(sig+":object-range", "object %s (%s): metadata min=%s max=%s but the object holds keys %s .. %s (file order)",
			o.ID, orderName(pm.Spec.Desc), zson.FormatValue(o.Min), zson.FormatValue(o.Max), zson.FormatValue(first), zson.FormatValue(last))
	}
	// File order: same-kind neighbours must respect the pool order; nulls and
	// missing are the largest key.
	if v := checkOrder(recs, pm.Spec.Desc, sig+":object-order", fmt.Sprintf("object %s", o.ID)); v != nil {
		return info, v
	}
	// Seek index.
	sb, err := storageGet(e.Ctx, obs, data.SeekIndexURI(pool.DataPath, o.ID))
	if err != nil {
		return info, kernel.Violatef(sig+":seekindex-unreadable", "seek index of %s: %v", o.ID, err)
	}
	if v := e.checkSeekIndex(pm, o, b, sb, keys, recs, sig); v != nil {
		return info, v
	}
	return info, nil
}

func orderName(desc bool) string {
	if desc {
		return "desc"
	}
	return "asc"
}

func sameValue(a, b zed.Value) bool {
	if a.IsNull() != b.IsNull() {
		return false
	}
	return a.Type().ID() == b.Type().ID() && bytes.Equal(a.Bytes(), b.Bytes())
}

// rank puts null and missing keys last (largest).
func nullish(r Rec) bool { return r.Kind == KNull || r.Kind == KMissing }

// checkOrder verifies pool-key order of a sequence for neighbours whose order
// the harness can define on its own: same kind (by value), and null/missing
// against anything (largest key).
func checkOrder(recs []Rec, desc bool, sig, where string) *kernel.Violation {
	for i := 1; i < len(recs); i++ {
		a, b := recs[i-1], recs[i]
		var c int
		switch {
		case nullish(a) && nullish(b):
			continue
		case nullish(a):
			c = 1
		case nullish(b):
			c = -1
		default:
			var ok bool
			c, ok = keyCmp(a, b)
			if !ok {
				continue
			}
		}
		if desc {
			c = -c
		}
		if c > 0 {
			return kernel.Violatef(sig, "%s: values out of pool-key order (%s) at positions %d,%d: u=%d key %s then u=%d key %s",
				where, orderName(desc), i-1, i, a.U, a.keyString(), b.U, b.keyString())
		}
	}
	return nil
}

func (r Rec) keyString() string {
	switch r.Kind {
	case KInt:
		return fmt.Sprint(r.I)
	case KStr:
		return fmt.Sprintf("%q", r.S)
	case KFloat:
		return fmt.Sprint(r.F)
	case KNull:
		return "null"
	case KMissing:
		return "missing"
	}
	return "?"
}

// checkSeekIndex: entries tile the object exactly (value offsets and byte
// ranges contiguous, covering all values and all bytes) and each entry's
// [min,max] are the keys of the first and last value of its range.
func (e *Env) checkSeekIndex(pm *PoolM, o *data.Object, objBytes, idxBytes []byte, keys []zed.Value, recs []Rec, sig string) *kernel.Violation {
	zr := zngio.NewReader(zed.NewContext(), bytes.NewReader(idxBytes))
	defer zr.Close()
	u := zson.NewZNGUnmarshaler()
	var valOff, byteOff uint64
	n := 0
	for {
		v, err := zr.Read()
		if err != nil {
			return kernel.Violatef(sig+":seekindex-unreadable", "seek index of %s: %v", o.ID, err)
		}
		if v == nil {
			break
		}
		var ent seekindex.Entry
		if err := u.Unmarshal(*v, &ent); err != nil {
			return kernel.Violatef(sig+":seekindex-unreadable", "seek index of %s: %v", o.ID, err)
		}
		n++
		if ent.ValOff != valOff || ent.Offset != byteOff {
			return kernel.Violatef(sig+":seekindex-gap", "seek index of %s entry %d: val_off=%d offset=%d, expected %d and %d (entries must tile the object)", o.ID, n, ent.ValOff, ent.Offset, valOff, byteOff)
		}
		if ent.ValCnt == 0 || ent.ValOff+ent.ValCnt > uint64(len(keys)) {
			return kernel.Violatef(sig+":seekindex-count", "seek index of %s entry %d: val_off=%d val_cnt=%d but object holds %d values", o.ID, n, ent.ValOff, ent.ValCnt, len(keys))
		}
		first, last := keys[ent.ValOff], keys[ent.ValOff+ent.ValCnt-1]
		lo, hi := first, last
		if pm.Spec.Desc {
			lo, hi = last, first
		}
		if !sameValue(ent.Min, lo) || !sameValue(ent.Max, hi) {
			return kernel.Violatef(sig+":seekindex-range", "seek index of %s entry %d (values %d..%d, %s): min=%s max=%s but those values have keys %s .. %s",
				o.ID, n, ent.ValOff, ent.ValOff+ent.ValCnt-1, orderName(pm.Spec.Desc), zson.FormatValue(ent.Min), zson.FormatValue(ent.Max), zson.FormatValue(first), zson.FormatValue(last))
		}
		// The byte range must decode to exactly val_cnt values.
		if ent.Offset+ent.Length > uint64(len(objBytes)) {
			return kernel.Violatef(sig+":seekindex-bytes", "seek index of %s entry %d: byte range %d+%d beyond object size %d", o.ID, n, ent.Offset, ent.Length, len(objBytes))
		}
		sr := zngio.NewReader(zed.NewContext(), bytes.NewReader(objBytes[ent.Offset:ent.Offset+ent.Length]))
		cnt := 0
		for {
			sv, err := sr.Read()
			if err != nil {
				sr.Close()
				return kernel.Violatef(sig+":seekindex-bytes", "seek index of %s entry %d: byte range %d+%d does not decode on its own: %v", o.ID, n, ent.Offset, ent.Length, err)
			}
			if sv == nil {
				break
			}
			if got, want := UOf(*sv), recs[int(ent.ValOff)+cnt].U; got != want {
				sr.Close()
				return kernel.Violatef(sig+":seekindex-bytes", "seek index of %s entry %d: value %d of its byte range is u=%d, expected u=%d", o.ID, n, cnt, got, want)
			}
			cnt++
		}
		sr.Close()
		if uint64(cnt) != ent.ValCnt {
			return kernel.Violatef(sig+":seekindex-bytes", "seek index of %s entry %d: byte range holds %d values, val_cnt=%d", o.ID, n, cnt, ent.ValCnt)
		}
		valOff += ent.ValCnt
		byteOff += ent.Length
	}
	if valOff != uint64(len(keys)) || byteOff != uint64(len(objBytes)) {
		return kernel.Violatef(sig+":seekindex-cover", "seek index of %s: %d entries cover %d of %d values and %d of %d bytes", o.ID, n, valOff, len(keys), byteOff, len(objBytes))
	}
	if n > 1 {
		e.W.Out.Probe("multi-entry-seekindex")
	}
	return nil
}

// CheckCommit compares the state at commit, read cold, with the model
// content want: snapshot readable, objects consistent, union of object
// contents == want, and a scan returns want in pool-key order.
func (e *Env) CheckCommit(pm *PoolM, commit ksuid.KSUID, want []int, sig, when string) *kernel.Violation {
	objs, _, obs, err := e.ObserveSnapshot(pm, commit)
	if err != nil {
		return kernel.Violatef(sig+":unreadable", "%s: pool %s commit %s is not readable from a cold handle: %v", when, pm.Spec.Name, commit, err)
	}
	var union []int
	for _, o := range objs {
		info, v := e.LearnObject(obs, pm, o, sig)
		if v != nil {
			v.Message = when + ": " + v.Message
			return v
		}
		union = append(union, info.Us...)
	}
	if len(objs) > 1 {
		e.W.Out.Probe("multi-object-snapshot")
	}
	if ok, diff := sameMultiset(union, want); !ok {
		return kernel.Violatef(sig+":content", "%s: pool %s commit %s: union of the snapshot's %d objects differs from the model: %s%s", when, pm.Spec.Name, commit, len(objs), diff, e.describeDiff(union, want))
	}
	if commit == ksuid.Nil {
		return nil
	}
	return e.CheckScan(obs, pm, commit.String(), want, sig, when)
}

// CheckScan runs an unfiltered scan and checks multiset, order and
// repeatability.
func (e *Env) CheckScan(c *Client, pm *PoolM, rev string, want []int, sig, when string) *kernel.Violation {
	src := fmt.Sprintf("from %s@%s", pm.Spec.Name, rev)
	vals, err := c.Query(e.Ctx, src)
	if err != nil {
		return kernel.Violatef(sig+":scan-error", "%s: %q failed: %v", when, src, err)
	}
	got := Us(vals)
	if ok, diff := sameMultiset(got, want); !ok {
		return kernel.Violatef(sig+":scan-content", "%s: %q differs from the model: %s", when, src, diff)
	}
	recs := make([]Rec, len(got))
	for i, u := range got {
		recs[i] = e.Recs[u]
	}
	if v := checkOrder(recs, pm.Spec.Desc, sig+":scan-order", fmt.Sprintf("%s: %q", when, src)); v != nil {
		v.Message += "\n sequence (u:key):"
		for i, r := range recs {
			if i < 60 {
				v.Message += fmt.Sprintf(" %d:%s", r.U, r.keyString())
			}
		}
		return v
	}
	vals2, err := c.Query(e.Ctx, src)
	if err != nil {
		return kernel.Violatef(sig+":scan-error", "%s: second %q failed: %v", when, src, err)
	}
	got2 := Us(vals2)
	if fmt.Sprint(got) != fmt.Sprint(got2) {
		keys := ""
		for i, u := range got {
			if i < 40 {
				keys += fmt.Sprintf(" %d:%s", u, e.Recs[u].keyString())
			}
		}
		return kernel.Violatef(sig+":scan-unstable", "%s: two scans of %q returned different sequences:\n %v\n %v\n keys (u:key) of the first:%s", when, src, clipInts(got, 40), clipInts(got2, 40), keys)
	}
	return nil
}

func storageGet(ctx context.Context, c *Client, u *storage.URI) ([]byte, error) {
	return storage.Get(ctx, c.H, u)
}

// describeDiff lists the keys of a few differing values.
func (e *Env) describeDiff(got, want []int) string {
	cnt := map[int]int{}
	for _, u := range want {
		cnt[u]++
	}
	for _, u := range got {
		cnt[u]--
	}
	var us []int
	for u, c := range cnt {
		if c != 0 {
			us = append(us, u)
		}
	}
	sort.Ints(us)
	s := "; differing values:"
	for i, u := range us {
		if i == 8 {
			s += " ..."
			break
		}
		r := e.Recs[u]
		s += fmt.Sprintf(" u=%d(key %s, d=%d)", u, r.keyString(), r.D)
	}
	return s
}
