package lakesim

import (
	"encoding/json"
	"fmt"
	"runtime/debug"
	"strings"

	"github.com/brimdata/super/compiler"
	"github.com/segmentio/ksuid"
	"verifsim/kernel"
	"verifsim/simdisk"
)

type seqCfg struct {
	Prop       string
	MaxOps     int
	RecheckOld bool // C13(a): re-query every earlier commit after every operation
	BranchOps  bool // C15: branch create/drop, merge, revert
}

type seqDesc struct {
	Pool    PoolSpec `json:"pool"`
	Storage string   `json:"storage"`
	Par     int      `json:"parallelism"`
	Ops     []Op     `json:"ops"`
	Policy  string   `json:"sched_policy"`
	Crash   string   `json:"crash,omitempty"`
}

// simdiskMode draws the storage back end (0 = object-store stub).
func simdiskMode(tape *kernel.Tape) simdisk.Mode {
	return simdisk.Mode(tape.Stream("knobs").Intn(2))
}

// runInWorld runs body as the single task of a fresh bubble.
func runInWorld(tape *kernel.Tape, prop string, body func(w *World) *kernel.Violation) *kernel.Outcome {
	out := &kernel.Outcome{}
	var viol *kernel.Violation
	p, leaked := InBubble(func() {
		mode := simdisk.Mode(tape.Stream("knobs").Intn(2))
		w := NewWorld(tape, mode, out)
		w.Disk.ParkAllHooks = true // one client runs at a time here
		defer w.Disk.Close()
		w.Sched.Go(func() {
			defer func() {
				if r := recover(); r != nil {
					st := string(debug.Stack())
					viol = &kernel.Violation{Signature: prop + ":panic:" + kernel.PanicSite(st), Message: fmt.Sprintf("panic: %v\n%s", r, st)}
				}
			}()
			viol = body(w)
		})
		w.Sched.Run()
		w.Finish()
	})
	if p != nil {
		if msg := fmt.Sprint(p.val); strings.HasPrefix(msg, "bubble deadlock") {
			// Every goroutine of the run is blocked for good with no timer
			// pending: an operation of the lake never returns.
			out.Violation = kernel.Violatef(prop+":deadlock", "an operation blocked forever (no goroutine can run, no timer pending): %s\noperations so far: %s", msg, describeOps(out.Desc))
			return out
		}
		panic(fmt.Sprintf("%v\n%s", p.val, p.stack))
	}
	if leaked {
		// Not part of any lake property (C11 speaks about readers of
		// untrusted bytes); counted as a reach probe, see DESIGN section 8.
		out.Probe("goroutines-left-blocked-at-end-of-run")
	}
	out.Violation = viol
	return out
}

func describeOps(desc any) string {
	b, err := json.Marshal(desc)
	if err != nil || len(b) > 1500 {
		if len(b) > 1500 {
			return string(b[len(b)-1500:])
		}
		return "?"
	}
	return string(b)
}

// setup creates the lake and one pool and returns the sequential runner.
func seqSetup(w *World, sig string, desc *seqDesc) (*SeqRun, *kernel.Violation) {
	e := NewEnv(w)
	kn := w.Kn
	par := []int{1, 2, 3, 8}[kn.Intn(4)]
	compiler.Parallelism = par
	spec := GenPoolSpec(kn, "p1")
	keyRange := []int{20, 5, 200}[kn.Intn(3)]
	desc.Pool, desc.Storage, desc.Par, desc.Policy = spec, w.Disk.Mode.String(), par, w.Sched.PolicyName()
	w.Out.Desc = desc
	w.Out.Bucket = w.Disk.Mode.String()
	c, err := w.Create(e.Ctx, w.Disk.NewHandle("c0", true))
	if err != nil {
		return nil, kernel.Violatef(sig+":unexpected-error:init", "lake init failed: %v", err)
	}
	id, err := c.CreatePool(e.Ctx, &spec)
	if err != nil {
		return nil, kernel.Violatef(sig+":unexpected-error:create-pool", "create pool %+v failed: %v", spec, err)
	}
	pm := &PoolM{Spec: spec, ID: id}
	e.Pools[spec.Name] = pm
	r := NewSeqRun(e, c, pm, keyRange, sig)
	if v := e.CheckCommit(pm, ksuid.Nil, nil, sig, "after pool creation"); v != nil {
		return nil, v
	}
	return r, nil
}

func seqBody(w *World, cfg seqCfg) *kernel.Violation {
	desc := &seqDesc{}
	r, v := seqSetup(w, cfg.Prop, desc)
	if v != nil {
		return v
	}
	r.BranchOps = cfg.BranchOps
	if cfg.RecheckOld {
		// In half of the time-travel runs the issuing client never queries,
		// so that snapshot files exist only where an operation itself had to
		// derive one and readers must fold the rest from the commit chain.
		r.NoClientScans = w.Kn.Chance(1, 2)
	}
	nops := w.Kn.Range(1, cfg.MaxOps)
	for i := 0; i < nops; i++ {
		op, v := r.Step(w.Wl, i, cfg.RecheckOld)
		desc.Ops = append(desc.Ops, op)
		if v != nil {
			return v
		}
	}
	w.Out.Nontrivial = len(desc.Ops) > 0 && (desc.Pool.Thresh != 0 || desc.Pool.Stride != 0 || desc.Par > 1 || len(desc.Ops) > 2)
	return nil
}

func runC14(tape *kernel.Tape) *kernel.Outcome {
	cfg := seqCfg{Prop: "C14", MaxOps: 14}
	return runInWorld(tape, cfg.Prop, func(w *World) *kernel.Violation { return seqBody(w, cfg) })
}

// C13 (a): time travel - every acknowledged commit keeps its content.
func runC13a(tape *kernel.Tape) *kernel.Outcome {
	cfg := seqCfg{Prop: "C13", MaxOps: 10, RecheckOld: true, BranchOps: tape.Stream("knobs").Chance(1, 2)}
	return runInWorld(tape, cfg.Prop, func(w *World) *kernel.Violation { return seqBody(w, cfg) })
}

// C15 sequential part: branch topologies, merge and revert against the
// object-level model.
func runC15seq(tape *kernel.Tape) *kernel.Outcome {
	cfg := seqCfg{Prop: "C15", MaxOps: 16, BranchOps: true}
	return runInWorld(tape, cfg.Prop, func(w *World) *kernel.Violation { return seqBody(w, cfg) })
}
