package lakesim

import (
	"fmt"
	"sort"

	"github.com/brimdata/super/compiler"
	"github.com/brimdata/super/lake/data"
	"github.com/segmentio/ksuid"
	"verifsim/kernel"
	"verifsim/simdisk"
)

type seqCfg struct {
	Prop       string
	MaxOps     int
	RecheckOld bool // C13(a): re-query every earlier commit after every operation
}

type seqDesc struct {
	Pool    PoolSpec `json:"pool"`
	Storage string   `json:"storage"`
	Par     int      `json:"parallelism"`
	Ops     []Op     `json:"ops"`
	Policy  string   `json:"sched_policy"`
}

// runSeq runs one sequential history inside a bubble and checks the model
// after every operation.
func runSeq(tape *kernel.Tape, cfg seqCfg) *kernel.Outcome {
	out := &kernel.Outcome{}
	var viol *kernel.Violation
	p, leaked := InBubble(func() {
		mode := simdisk.Mode(tape.Stream("knobs").Intn(2))
		w := NewWorld(tape, mode, out)
		w.Sched.Go(func() { viol = seqBody(w, cfg) })
		w.Sched.Run()
		w.Finish()
	})
	if p != nil {
		panic(fmt.Sprintf("%v\n%s", p.val, p.stack))
	}
	if leaked {
		// Not part of any lake property (C11 speaks about readers of
		// untrusted bytes); counted as a reach probe, see DESIGN section 8.
		out.Probe("goroutines-left-blocked-at-end-of-run")
	}
	out.Violation = viol
	return out
}

func seqBody(w *World, cfg seqCfg) *kernel.Violation {
	sig := cfg.Prop
	e := NewEnv(w)
	kn, wl := w.Kn, w.Wl
	par := []int{1, 2, 3, 8}[kn.Intn(4)]
	compiler.Parallelism = par
	spec := GenPoolSpec(kn, "p1")
	keyRange := []int{20, 5, 200}[kn.Intn(3)]
	nops := kn.Range(1, cfg.MaxOps)
	desc := &seqDesc{Pool: spec, Storage: w.Disk.Mode.String(), Par: par, Policy: w.Sched.PolicyName()}
	w.Out.Desc = desc
	w.Out.Bucket = w.Disk.Mode.String()

	c, err := w.Create(e.Ctx, w.Disk.NewHandle("c0", true))
	if err != nil {
		return kernel.Violatef(sig+":unexpected-error:init", "lake init failed: %v", err)
	}
	id, err := c.CreatePool(e.Ctx, &spec)
	if err != nil {
		return kernel.Violatef(sig+":unexpected-error:create-pool", "create pool %+v failed: %v", spec, err)
	}
	pm := &PoolM{Spec: spec, ID: id, Branches: map[string]*BranchM{}, Commits: map[ksuid.KSUID][]int{}}
	e.Pools[spec.Name] = pm
	br := &BranchM{Name: "main", Content: map[int]bool{}}
	pm.Branches["main"] = br
	r := &SeqRun{E: e, C: c, PM: pm, Branch: br, Vecs: map[ksuid.KSUID]bool{}, Added: map[ksuid.KSUID]bool{}, Vacuumed: map[ksuid.KSUID]bool{}, KeyRange: keyRange}
	if v := e.CheckCommit(pm, ksuid.Nil, nil, sig, "after pool creation"); v != nil {
		return v
	}
	for i := 0; i < nops; i++ {
		op := r.GenOp(wl)
		when := fmt.Sprintf("op %d (%s)", i+1, op.Kind)
		ex, err := r.Expectation(wl, &op)
		if err != nil {
			// The reference evaluator rejects the predicate: skip it.
			op.Result = "skipped: " + err.Error()
			desc.Ops = append(desc.Ops, op)
			continue
		}
		prevObjs := append([]ksuid.KSUID(nil), r.Objs...)
		prevVecs := r.Vecs
		commit, vacuumed, err := r.Issue(c, &op, ex)
		w.Out.Probe("op:" + op.Kind)
		if err != nil {
			op.Result = "error: " + err.Error()
			desc.Ops = append(desc.Ops, op)
			w.Out.Probe("op-error:" + op.Kind)
			if !ex.MayFail && !ex.MustFail {
				return kernel.Violatef(sig+":unexpected-error:"+op.Kind, "%s %+v on a fault-free, uncontended lake failed: %v", when, op, err)
			}
			// A failed operation leaves no trace.
			tip, terr := e.TipOf(pm, br.Name)
			if terr != nil || tip != br.Tip {
				return kernel.Violatef(sig+":failed-op-moved-tip", "%s failed (%v) but the branch tip is now %s (was %s) %v", when, err, tip, br.Tip, terr)
			}
			if v := e.CheckCommit(pm, br.Tip, br.Us(), sig, when+" (failed)"); v != nil {
				return v
			}
			continue
		}
		if ex.MustFail {
			return kernel.Violatef(sig+":unexpected-success:"+op.Kind, "%s %+v succeeded although the model says it cannot (vector state %v)", when, op, prevVecs)
		}
		if ex.NoCommit {
			op.Result = fmt.Sprintf("vacuumed %d", len(vacuumed))
			desc.Ops = append(desc.Ops, op)
			if v := r.checkVacuum(vacuumed, sig, when); v != nil {
				return v
			}
			if v := e.CheckCommit(pm, br.Tip, br.Us(), sig, when); v != nil {
				return v
			}
			continue
		}
		op.Result = commit.String()
		desc.Ops = append(desc.Ops, op)
		tip, terr := e.TipOf(pm, br.Name)
		if terr != nil || tip != commit {
			return kernel.Violatef(sig+":ack-not-tip", "%s acknowledged commit %s but the branch tip read cold is %s %v", when, commit, tip, terr)
		}
		br.Tip = commit
		br.Content = ex.Content
		pm.Commits[commit] = br.Us()
		pm.Order = append(pm.Order, commit)
		if v := r.Refresh(sig, when); v != nil {
			return v
		}
		if v := e.CheckCommit(pm, commit, br.Us(), sig, when); v != nil {
			return v
		}
		// Operation-specific object-level expectations.
		if v := r.checkObjects(&op, prevObjs, prevVecs, sig, when); v != nil {
			return v
		}
		// The issuing (warm) client sees the same thing by branch name.
		if v := e.CheckScan(c, pm, br.Name, br.Us(), sig, when+" (warm handle, by branch name)"); v != nil {
			return v
		}
		if cfg.RecheckOld {
			if v := r.recheckOld(sig, when); v != nil {
				return v
			}
		}
	}
	w.Out.Nontrivial = len(desc.Ops) > 0 && (spec.Thresh != 0 || spec.Stride != 0 || par > 1 || len(desc.Ops) > 2)
	return nil
}

func idSet(ids []ksuid.KSUID) map[ksuid.KSUID]bool {
	m := map[ksuid.KSUID]bool{}
	for _, id := range ids {
		m[id] = true
	}
	return m
}

// checkObjects verifies what an operation may do to the object set.
func (r *SeqRun) checkObjects(op *Op, prevObjs []ksuid.KSUID, prevVecs map[ksuid.KSUID]bool, sig, when string) *kernel.Violation {
	prev, cur := idSet(prevObjs), idSet(r.Objs)
	var removed, added []ksuid.KSUID
	for id := range prev {
		if !cur[id] {
			removed = append(removed, id)
		}
	}
	for id := range cur {
		if !prev[id] {
			added = append(added, id)
		}
	}
	chosen := map[ksuid.KSUID]bool{}
	for _, i := range op.Objs {
		chosen[prevObjs[i]] = true
	}
	switch op.Kind {
	case "load":
		if len(removed) != 0 {
			return kernel.Violatef(sig+":load-removed-objects", "%s removed objects %v", when, removed)
		}
		if ok, diff := sameMultiset(r.objUs(added), op.Us); !ok {
			return kernel.Violatef(sig+":load-objects", "%s: new objects do not hold exactly the loaded batch: %s", when, diff)
		}
		if len(added) > 1 {
			r.E.W.Out.Probe("multi-object-load")
		}
	case "delete":
		if len(added) != 0 || len(removed) != len(chosen) {
			return kernel.Violatef(sig+":delete-objects", "%s: asked to delete %d objects; %d removed, %d added", when, len(chosen), len(removed), len(added))
		}
		for _, id := range removed {
			if !chosen[id] {
				return kernel.Violatef(sig+":delete-objects", "%s removed object %s which was not named", when, id)
			}
		}
	case "compact":
		for _, id := range removed {
			if !chosen[id] {
				return kernel.Violatef(sig+":compact-objects", "%s removed object %s which was not named", when, id)
			}
		}
		if len(removed) != len(chosen) {
			return kernel.Violatef(sig+":compact-objects", "%s: named %d objects, %d removed", when, len(chosen), len(removed))
		}
		if ok, diff := sameMultiset(r.objUs(added), r.objUs(removed)); !ok {
			return kernel.Violatef(sig+":compact-content", "%s: compacted objects hold different values than their sources: %s", when, diff)
		}
		if op.Vectors {
			for _, id := range added {
				if !r.Vecs[id] {
					return kernel.Violatef(sig+":compact-vectors", "%s with vectors: new object %s has no vector copy", when, id)
				}
			}
		}
	case "vector-add", "vector-del":
		if len(added) != 0 || len(removed) != 0 {
			return kernel.Violatef(sig+":vector-op-changed-objects", "%s changed the object set (+%d -%d)", when, len(added), len(removed))
		}
		for id := range cur {
			want := prevVecs[id]
			if chosen[id] {
				want = op.Kind == "vector-add"
			}
			if r.Vecs[id] != want {
				return kernel.Violatef(sig+":vector-state", "%s: object %s has-vector=%v, expected %v", when, id, r.Vecs[id], want)
			}
		}
	}
	if op.Kind != "vector-add" && op.Kind != "vector-del" && op.Kind != "compact" {
		for id := range cur {
			if prev[id] && r.Vecs[id] != prevVecs[id] {
				return kernel.Violatef(sig+":vector-state", "%s changed the vector state of untouched object %s", when, id)
			}
		}
	}
	return nil
}

// checkVacuum: vacuum at the branch tip removes exactly the objects that were
// once part of the branch and are not in the tip's snapshot (and were not
// vacuumed before); everything in the snapshot stays on disk.
func (r *SeqRun) checkVacuum(vacuumed []ksuid.KSUID, sig, when string) *kernel.Violation {
	cur := idSet(r.Objs)
	want := map[ksuid.KSUID]bool{}
	for id := range r.Added {
		if !cur[id] && !r.Vacuumed[id] {
			want[id] = true
		}
	}
	got := idSet(vacuumed)
	for id := range got {
		if cur[id] {
			return kernel.Violatef(sig+":vacuum-live-object", "%s reported vacuuming object %s which is part of the tip snapshot", when, id)
		}
		if !want[id] {
			return kernel.Violatef(sig+":vacuum-unexpected", "%s reported vacuuming object %s which the model does not consider vacuumable", when, id)
		}
	}
	for id := range want {
		if !got[id] {
			return kernel.Violatef(sig+":vacuum-missed", "%s did not vacuum object %s (once in the branch, absent from the tip snapshot)", when, id)
		}
		r.Vacuumed[id] = true
	}
	if len(want) > 0 {
		r.E.W.Out.Probe("vacuum-removed-objects")
	}
	// Disk state.
	obs, err := r.E.W.Open(r.E.Ctx, "observer", false)
	if err != nil {
		return kernel.Violatef(sig+":unreadable", "%s: %v", when, err)
	}
	pool, err := obs.Root.OpenPool(r.E.Ctx, r.PM.ID)
	if err != nil {
		return kernel.Violatef(sig+":unreadable", "%s: %v", when, err)
	}
	for id := range cur {
		if ok, _ := obs.H.Exists(r.E.Ctx, data.SequenceURI(pool.DataPath, id)); !ok {
			return kernel.Violatef(sig+":vacuum-live-object", "%s: object %s of the tip snapshot is gone from storage", when, id)
		}
	}
	for id := range r.Vacuumed {
		if ok, _ := obs.H.Exists(r.E.Ctx, data.SequenceURI(pool.DataPath, id)); ok {
			return kernel.Violatef(sig+":vacuum-missed", "%s: object %s reported vacuumed is still on storage", when, id)
		}
	}
	return nil
}

// recheckOld (C13 a): every acknowledged commit whose objects have not been
// vacuumed must still yield exactly the content first recorded for it.
func (r *SeqRun) recheckOld(sig, when string) *kernel.Violation {
	for _, c := range r.PM.Order {
		if c == r.Branch.Tip {
			continue
		}
		if r.commitTouchedByVacuum(c) {
			continue
		}
		if v := r.E.CheckCommit(r.PM, c, r.PM.Commits[c], sig+":old-commit", fmt.Sprintf("%s, re-reading earlier commit %s", when, c)); v != nil {
			return v
		}
		r.E.W.Out.Probe("old-commit-requeried")
	}
	return nil
}

func (r *SeqRun) commitTouchedByVacuum(c ksuid.KSUID) bool {
	if len(r.Vacuumed) == 0 {
		return false
	}
	want := map[int]bool{}
	for _, u := range r.PM.Commits[c] {
		want[u] = true
	}
	// A commit's obligations end when any object that holds one of its
	// values has been vacuumed.
	for id := range r.Vacuumed {
		for _, u := range r.E.Objs[id].Us {
			if want[u] {
				return true
			}
		}
	}
	return false
}

func runC14(tape *kernel.Tape) *kernel.Outcome {
	return runSeq(tape, seqCfg{Prop: "C14", MaxOps: 14})
}

var _ = sort.Ints
