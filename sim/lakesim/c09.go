package lakesim

import (
	"fmt"
	"os"
	"sort"
	"strings"

	"github.com/brimdata/super"
	"github.com/brimdata/super/runtime"
	"github.com/brimdata/super/zson"
	"github.com/segmentio/ksuid"
	"verifsim/kernel"
)

// C09 (lake part): adding or removing vector copies of a pool's objects never
// changes the result of a query, and the vectorised run raises no error where
// the sequential one raises none.  Only the auto-vectorised shapes
// (count() by <field>, sum(<field>)) at parallelism >= 2 reach the vector
// runtime through the lake planner.

type c09Desc struct {
	seqDesc
	Queries []c09Query `json:"queries"`
}

type c09Query struct {
	Src     string `json:"query"`
	Par     int    `json:"parallelism"`
	Vectors string `json:"vectors"` // none / some / all
	Rows    int    `json:"rows"`
}

func runC09(tape *kernel.Tape) *kernel.Outcome {
	return runInWorld(tape, "C09", func(w *World) *kernel.Violation { return c09Body(w) })
}

// lakeQuery runs src at an explicit parallelism and returns the result as
// sorted ZSON lines (these aggregations define no order).
func lakeQuery(e *Env, c *Client, src string, par int) ([]string, error) {
	if os.Getenv("VERIF_DEBUG") != "" {
		fmt.Fprintf(os.Stderr, "DEBUG query %q par=%d\n", src, par)
	}
	if par > 1 {
		// The legs and merge/combine parents are scheduled by the simulator.
		e.W.Disk.HookTask = "q"
		defer func() { e.W.Disk.HookTask = "" }()
	}
	comp := c.Compiler()
	seq, _, err := comp.Parse(src)
	if err != nil {
		return nil, err
	}
	rctx := runtime.NewContext(e.Ctx, zed.NewContext())
	q, err := comp.NewLakeQuery(rctx, seq, par, nil)
	if err != nil {
		rctx.Cancel()
		return nil, err
	}
	defer q.Pull(true)
	vals, err := drain(q)
	if err != nil {
		return nil, err
	}
	out := make([]string, len(vals))
	for i, v := range vals {
		out[i] = zson.FormatValue(v)
	}
	sort.Strings(out)
	return out, nil
}

func c09Body(w *World) *kernel.Violation {
	sig := "C09"
	desc := &c09Desc{}
	w.Out.Desc = desc
	e := NewEnv(w)
	kn, wl := w.Kn, w.Wl
	spec := GenPoolSpec(kn, "p1")
	spec.Thresh = []int64{0, 80, 300}[kn.Intn(3)]
	// Field f carries the type mix the vector aggregators dispatch on.
	fieldMix := kn.Intn(6)
	desc.Pool, desc.Storage, desc.Policy = spec, w.Disk.Mode.String(), w.Sched.PolicyName()
	w.Out.Bucket = w.Disk.Mode.String()
	c, err := w.Create(e.Ctx, w.Disk.NewHandle("c0", true))
	if err != nil {
		return kernel.Violatef(sig+":unexpected-error:init", "lake init failed: %v", err)
	}
	id, err := c.CreatePool(e.Ctx, &spec)
	if err != nil {
		return kernel.Violatef(sig+":unexpected-error:create-pool", "create pool failed: %v", err)
	}
	pm := &PoolM{Spec: spec, ID: id}
	r := NewSeqRun(e, c, pm, 20, sig)
	r.NoClientScans = true
	// Loads with the extra field f.
	nloads := kn.Range(1, 4)
	for i := 0; i < nloads; i++ {
		n := wl.Range(1, 40)
		if wl.Chance(1, 6) {
			n = wl.Range(250, 400) // beyond the 256-entry dictionary
		}
		recs := e.GenBatch(wl, &spec, n, 20)
		for j := range recs {
			recs[j].Extra = c09Field(wl, fieldMix)
			e.Recs[recs[j].U] = recs[j]
		}
		zctx := zed.NewContext()
		rd, rerr := Reader(zctx, &spec, recs)
		if rerr != nil {
			panic(rerr)
		}
		commit, lerr := c.API.Load(e.Ctx, zctx, id, "main", rd, commitMsg)
		if lerr != nil {
			w.Out.Bucket = "setup-misbehaves"
			return nil
		}
		b := r.Br["main"]
		objs, vecs, v := r.observe(commit, "setup load")
		if v != nil {
			w.Out.Bucket = "setup-misbehaves"
			return nil
		}
		r.Parent[commit] = b.Tip
		b.Tip, b.Objs, b.Vecs = commit, objs, vecs
		r.CObjs[commit] = objs
		r.Acked = append(r.Acked, commit)
		desc.Ops = append(desc.Ops, Op{Kind: "load", Branch: "main", N: n, Result: commit.String()})
	}
	queries := []string{
		"from p1 | count() by f",
		"from p1 | sum(f)",
		"from p1 | count() by d",
		"from p1 | sum(d)",
		"from p1 | sum(u)",
		"from p1 | count() by " + spec.KeyPath,
		// a filter in front: the vector scan must apply it or not be used
		"from p1 | d > 0 | sum(d)",
		"from p1 | u > 3 | sum(u)",
		"from p1 | d > 0 | count() by f",
		"from p1 | " + spec.KeyPath + " >= 2 | sum(u)",
	}
	// Parallelism 1 never takes the vector path; one of 2 and 3 does.
	pars := []int{1, 2 + wl.Intn(2)}
	run := func(label string) (map[string][]string, *kernel.Violation) {
		res := map[string][]string{}
		for _, q := range queries {
			for _, par := range pars {
				out, err := lakeQuery(e, c, q, par)
				key := fmt.Sprintf("%s @%d", q, par)
				if err != nil {
					res[key] = []string{"error: " + err.Error()}
				} else {
					res[key] = out
				}
				desc.Queries = append(desc.Queries, c09Query{Src: q, Par: par, Vectors: label, Rows: len(out)})
			}
		}
		return res, nil
	}
	base, _ := run("none")
	// The sequential plan must agree with itself across parallelism first;
	// if not, that is C08's finding, not this property's.
	for _, q := range queries {
		if strings.Join(base[q+" @1"], "\n") != strings.Join(base[fmt.Sprintf("%s @%d", q, pars[1])], "\n") {
			w.Out.Bucket = "parallelism-differs-without-vectors"
			return nil
		}
	}
	var knownViol *kernel.Violation
	compare := func(label string, got map[string][]string) *kernel.Violation {
		for _, q := range queries {
			for _, par := range pars {
				key := fmt.Sprintf("%s @%d", q, par)
				a, b := base[key], got[key]
				if strings.Join(a, "\n") != strings.Join(b, "\n") {
					class := "result-differs"
					if len(b) == 1 && strings.HasPrefix(b[0], "error: ") && !(len(a) == 1 && strings.HasPrefix(a[0], "error: ")) {
						class = "vector-run-errors"
					}
					// The class names the query shape and the kind of column
					// it aggregates, so that known findings stay specific.
					shape := strings.ReplaceAll(strings.TrimPrefix(q, "from p1 | "), " ", "")
					column := "int"
					switch {
					case strings.HasSuffix(shape, "byf") || strings.HasSuffix(shape, "(f)"):
						column = c09MixName[fieldMix]
					case strings.Contains(shape, "by"+spec.KeyPath) && spec.MixedKeys:
						column = "mixed-type-keys"
					}
					kind := "other"
					switch {
					case strings.HasPrefix(shape, "count()by") && (column == "constant-string" || column == "many-distinct-strings"):
						kind = "count-by-string-column"
					case strings.HasPrefix(shape, "count()by") && column == "strings+nulls":
						kind = "count-by-string-column-with-nulls"
					case strings.HasPrefix(shape, "count()by"):
						kind = "count-by-non-string-column"
					case strings.HasPrefix(shape, "sum(") && (column == "int" || column == "ints+nulls"):
						kind = "sum-of-integer-column"
					case strings.HasPrefix(shape, "sum("):
						kind = "sum-of-non-integer-column"
					}
					v := kernel.Violatef(sig+":"+kind+":"+class+":"+shape+":"+column, "query %q at parallelism %d with %s objects vectorised differs from the run without vector copies (column: %s):\n rows only without vectors: %s\n rows only with vectors:    %s",
						q, par, label, column, clipLines(onlyIn(a, b), 12), clipLines(onlyIn(b, a), 12))
					if kernel.IsKnown(v.Signature) {
						// A recorded finding: keep looking for anything
						// else in this run, report this one only if
						// nothing else turns up.
						if knownViol == nil {
							knownViol = v
						}
						break
					}
					return v
				}
			}
		}
		return nil
	}
	objs := r.Br["main"].Objs.sorted()
	if len(objs) == 0 {
		return nil
	}
	// Some objects vectorised (planner must fall back), then all.
	some := objs[:1+wl.Intn(len(objs))]
	addVectors := func(ids []ksuid.KSUID) error {
		_, err := c.API.AddVectors(e.Ctx, "p1", "main", ids, commitMsg)
		return err
	}
	if err := addVectors(some); err != nil {
		return kernel.Violatef(sig+":unexpected-error:vector-add", "vector add of %d objects failed: %v", len(some), err)
	}
	label := "some"
	if len(some) == len(objs) {
		label = "all"
	}
	got, _ := run(label)
	if v := compare(label, got); v != nil {
		return v
	}
	if len(some) < len(objs) {
		if err := addVectors(objs[len(some):]); err != nil {
			return kernel.Violatef(sig+":unexpected-error:vector-add", "vector add of the remaining objects failed: %v", err)
		}
		got, _ := run("all")
		if v := compare("all", got); v != nil {
			return v
		}
	}
	w.Out.Probe("all-objects-vectorised")
	if wl.Chance(1, 3) {
		// The history goes on: an object that has a vector copy is deleted
		// and new data arrives without one.  The answers with the remaining
		// vector copies must be those without any.
		if _, err := c.API.Delete(e.Ctx, id, "main", objs[:1], commitMsg); err != nil {
			return kernel.Violatef(sig+":unexpected-error:delete", "delete of a vectorised object failed: %v", err)
		}
		for k, n := 0, wl.Range(1, 2); k < n; k++ {
			recs := e.GenBatch(wl, &spec, wl.Range(1, 30), 20)
			for j := range recs {
				recs[j].Extra = c09Field(wl, fieldMix)
			}
			zctx := zed.NewContext()
			rd, rerr := Reader(zctx, &spec, recs)
			if rerr != nil {
				panic(rerr)
			}
			if _, err := c.API.Load(e.Ctx, zctx, id, "main", rd, commitMsg); err != nil {
				return kernel.Violatef(sig+":unexpected-error:load", "load after vector add failed: %v", err)
			}
		}
		got, _ := run("all but new")
		if len(objs) > 1 {
			if _, err := c.API.DeleteVectors(e.Ctx, "p1", "main", objs[1:], commitMsg); err != nil {
				return kernel.Violatef(sig+":unexpected-error:vector-del", "vector delete failed: %v", err)
			}
		}
		base, _ = run("none (after delete and load)")
		if v := compare("the older (objects loaded after the vector add have none)", got); v != nil {
			return v
		}
		w.Out.Probe("vectorised-object-deleted-then-plain-load")
		w.Out.Nontrivial = true
		return knownViol
	}
	// And removing them again changes nothing either.
	if wl.Chance(1, 2) {
		if _, err := c.API.DeleteVectors(e.Ctx, "p1", "main", objs, commitMsg); err != nil {
			return kernel.Violatef(sig+":unexpected-error:vector-del", "vector delete failed: %v", err)
		}
		got, _ := run("none-again")
		if v := compare("none again (vectors removed)", got); v != nil {
			return v
		}
	}
	w.Out.Nontrivial = true
	return knownViol
}

var c09MixName = []string{"strings+nulls", "constant-string", "many-distinct-strings", "ints+nulls", "uint+float+int+absent", "several-types"}

// onlyIn returns the rows of a that have no counterpart in b (multiset).
func onlyIn(a, b []string) []string {
	cnt := map[string]int{}
	for _, x := range b {
		cnt[x]++
	}
	var out []string
	for _, x := range a {
		if cnt[x] > 0 {
			cnt[x]--
			continue
		}
		out = append(out, x)
	}
	if out == nil {
		out = []string{"(nothing)"}
	}
	return out
}

func clipLines(a []string, n int) string {
	if len(a) > n {
		return strings.Join(a[:n], " ") + fmt.Sprintf(" ... (%d rows)", len(a))
	}
	return strings.Join(a, " ")
}

// c09Field draws the ZSON text of field f for one record (or "" = absent).
func c09Field(s *kernel.Stream, mix int) string {
	str := func() string {
		return fmt.Sprintf("%q", []string{"a", "b", "c", "", "zz", "a b", "é"}[s.Intn(7)])
	}
	manyStr := func() string { return fmt.Sprintf("\"s%d\"", s.Intn(300)) }
	switch mix {
	case 0: // strings, few distinct (dict), with nulls
		if s.Chance(1, 8) {
			return "null(string)"
		}
		return str()
	case 1: // constant column
		return "\"const\""
	case 2: // many distinct strings (plain encoding)
		return manyStr()
	case 3: // ints
		if s.Chance(1, 8) {
			return "null(int64)"
		}
		return fmt.Sprint(s.Intn(9) - 3)
	case 4: // uints and floats mixed in one column, sometimes absent
		switch s.Intn(4) {
		case 0:
			return fmt.Sprintf("%d(uint64)", s.Intn(5))
		case 1:
			return fmt.Sprintf("%d.5", s.Intn(4))
		case 2:
			return ""
		default:
			return fmt.Sprint(s.Intn(5))
		}
	default: // several types in one column
		switch s.Intn(5) {
		case 0:
			return str()
		case 1:
			return fmt.Sprint(s.Intn(5))
		case 2:
			return "null(string)"
		case 3:
			return ""
		default:
			return fmt.Sprintf("%d.25", s.Intn(3))
		}
	}
}
