package lakesim

import (
	"fmt"
	"regexp"
	"runtime/debug"
	"sort"
	"strings"

	"github.com/brimdata/super"
	"github.com/brimdata/super/runtime"
	"github.com/brimdata/super/zson"
	"verifsim/kernel"
)

// C08: a lake query returns the same result at parallelism 1 and at any higher
// parallelism, for every schedule of the scan legs.  The legs and the
// merge/combine parents park at simhook points; the seeded scheduler decides
// which leg gets the next partition and whose batch arrives first.

type c08Desc struct {
	seqDesc
	Programs []c08Prog `json:"programs"`
}

type c08Prog struct {
	Src   string `json:"program"`
	Order string `json:"order"` // ordered | multiset
	Pars  []int  `json:"parallelism"`
	Rows  int    `json:"rows"`
}

func runC08(tape *kernel.Tape) *kernel.Outcome {
	debug.SetGCPercent(-1)
	defer debug.SetGCPercent(400)
	return runInWorld(tape, "C08", func(w *World) *kernel.Violation { return c08Body(w) })
}

// c08GenProgram draws a program and says whether it defines an order.
func c08GenProgram(s *kernel.Stream, spec *PoolSpec, keyRange, maxU int) (string, string) {
	key := spec.KeyPath
	dir := ""
	if spec.Desc {
		dir = " -r"
	}
	filt := func() string { return GenPred(s, spec, keyRange, maxU, 1) }
	switch s.Pick(4, 3, 3, 3, 2, 2, 2, 2, 2, 2, 3, 3, 2, 3, 3, 3, 2, 2) {
	case 0: // pool-key order + filter, then explicit sort on the unique u
		return fmt.Sprintf("from p1 | %s | sort u", filt()), "ordered"
	case 1: // plain scan: pool-key order, ties compared as a multiset per key
		return "from p1", "keyorder"
	case 2:
		return fmt.Sprintf("from p1 | %s", filt()), "keyorder"
	case 3:
		return "from p1 | count() by d | sort d", "ordered"
	case 4:
		return fmt.Sprintf("from p1 | sum(u), count(), min(u), max(u) by d | sort d"), "ordered"
	case 5:
		return fmt.Sprintf("from p1 | union(d), count() by %s", key), "multiset"
	case 6:
		return fmt.Sprintf("from p1 | sort%s %s, u | head %d", dir, key, s.Range(1, 12)), "ordered"
	case 7:
		return fmt.Sprintf("from p1 | sort u | tail %d", s.Range(1, 12)), "ordered"
	case 8:
		return fmt.Sprintf("from p1 | %s | count()", filt()), "multiset"
	case 10: // partials holding sets of a union type (mixed-key pools)
		return fmt.Sprintf("from p1 | union(%s), count() by d", key), "multiset"
	case 11: // an explicit sort on a nullable, possibly mixed-type field, either way round
		// (pad is absent from most records).
		return fmt.Sprintf("from p1 | sort%s%s %s, u", []string{"", " -r"}[s.Intn(2)], []string{"", " -nulls first"}[s.Intn(2)], []string{key, "pad"}[s.Intn(2)]), "ordered"
	case 13: // single-key sort the optimizer may push into the legs; x is unique or null
		return fmt.Sprintf("from p1 | put x:=d>0 ? u : null | sort%s%s x | cut x", []string{"", " -r"}[s.Intn(2)], []string{"", " -nulls first", " -nulls last"}[s.Intn(3)]), "ordered"
	case 14: // single-key sort on the pool key, which the optimizer may fold into the scan's merge
		return fmt.Sprintf("from p1 | sort%s%s %s", []string{"", " -r"}[s.Intn(2)], []string{"", " -nulls first", " -nulls last"}[s.Intn(3)], key), "keyorder"
	case 15: // the pool key is cut away before the legs are joined
		return fmt.Sprintf("from p1 | cut u | head %d", s.Range(1, 12)), "ordered-if-unique-keys"
	case 16: // a running count in an expression
		return "from p1 | put c:=count() | sort u", "ordered"
	case 17: // collect() through partials, with elements whose encoding is empty
		return "from p1 | put e:=d>0 ? \"\" : \"x\" | collect(e), count() by d", "multiset-collect"
	case 12:
		return "from p1 | avg(d), and(d>0), or(d>2), min(u) by d2:=d%3 | sort d2", "ordered"
	default:
		return fmt.Sprintf("from p1 | cut u, %s | sort u | head %d", key, s.Range(1, 30)), "ordered"
	}
}

var collectRE = regexp.MustCompile(`collect:\[[^\]]*\]`)

type c08Row struct {
	Text string
	U    int
}

func c08Query(e *Env, c *Client, src string, par int) ([]c08Row, error) {
	comp := c.Compiler()
	seq, _, err := comp.Parse(src)
	if err != nil {
		return nil, err
	}
	rctx := runtime.NewContext(e.Ctx, zed.NewContext())
	q, err := comp.NewLakeQuery(rctx, seq, par, nil)
	if err != nil {
		rctx.Cancel()
		return nil, err
	}
	defer q.Pull(true)
	vals, err := drain(q)
	if err != nil {
		return nil, err
	}
	out := make([]c08Row, len(vals))
	for i, v := range vals {
		out[i] = c08Row{Text: zson.FormatValue(v), U: UOf(v)}
	}
	return out, nil
}

func c08Body(w *World) *kernel.Violation {
	sig := "C08"
	desc := &c08Desc{}
	r, v := c16Pool(w, sig, &desc.seqDesc)
	w.Out.Desc = desc
	if v != nil || r == nil {
		return v
	}
	e := r.E
	if w.Kn.Chance(2, 3) {
		w.Sched.SetPolicy(kernel.PolicyUniform)
		desc.Policy = "uniform"
	}
	np := w.Kn.Range(1, 5)
	for i := 0; i < np; i++ {
		src, order := c08GenProgram(w.Wl, &r.PM.Spec, r.KeyRange, e.NextU)
		w.Disk.HookTask = ""
		ref, err := c08Query(e, r.C, src, 1)
		if err != nil {
			continue // the program does not run at parallelism 1 either
		}
		pd := c08Prog{Src: src, Order: order, Rows: len(ref)}
		for _, par := range []int{2, 3, 8, 16} {
			if !w.Wl.Chance(1, 2) && par != 2 {
				continue
			}
			pd.Pars = append(pd.Pars, par)
			w.Disk.HookTask = "q"
			got, err := c08Query(e, r.C, src, par)
			w.Disk.HookTask = ""
			if err != nil {
				desc.Programs = append(desc.Programs, pd)
				return kernel.Violatef(sig+":error-at-higher-parallelism", "%q runs at parallelism 1 (%d rows) but fails at parallelism %d: %v", src, len(ref), par, err)
			}
			if v := c08Compare(e, r, src, order, par, ref, got); v != nil {
				desc.Programs = append(desc.Programs, pd)
				return v
			}
			w.Out.Probe(fmt.Sprintf("parallelism-%d", par))
		}
		desc.Programs = append(desc.Programs, pd)
	}
	w.Out.Nontrivial = len(desc.Programs) > 0 && w.Sched.Steps() > 0
	return nil
}

func c08Compare(e *Env, r *SeqRun, src, order string, par int, ref, got []c08Row) *kernel.Violation {
	sig := "C08"
	text := func(rows []c08Row) []string {
		out := make([]string, len(rows))
		for i, x := range rows {
			out[i] = x.Text
		}
		return out
	}
	a, b := text(ref), text(got)
	describe := func() string {
		return fmt.Sprintf("%q at parallelism %d differs from parallelism 1 (%s):\n p=1 (%d rows): %s\n p=%d (%d rows): %s", src, par, order, len(a), clipLines(a, 14), par, len(b), clipLines(b, 14))
	}
	if order == "multiset-collect" {
		// collect() keeps input order, which parallel legs do not define:
		// compare the collected arrays as multisets.
		norm := func(rows []string) []string {
			out := make([]string, len(rows))
			for i, r := range rows {
				out[i] = collectRE.ReplaceAllStringFunc(r, func(m string) string {
					elems := strings.Split(m[len("collect:["):len(m)-1], ",")
					sort.Strings(elems)
					return "collect:[" + strings.Join(elems, ",") + "]"
				})
			}
			return out
		}
		a, b = norm(a), norm(b)
		order = "multiset"
	}
	switch order {
	case "ordered-if-unique-keys":
		// The first N values in pool-key order: which of several values
		// with the same key come first is open, the keys are not.
		if len(a) != len(b) {
			return kernel.Violatef(sig+":sequence-differs", "%s", describe())
		}
		for i := range ref {
			ra, rb := e.Recs[ref[i].U], e.Recs[got[i].U]
			if nullish(ra) && nullish(rb) {
				continue
			}
			if ra.keyString() != rb.keyString() {
				return kernel.Violatef(sig+":key-order-differs", "%s\n at position %d the value's key is %s at p=1 and %s at p=%d", describe(), i, ra.keyString(), rb.keyString(), par)
			}
		}
	case "ordered":
		if strings.Join(a, "\n") != strings.Join(b, "\n") {
			return kernel.Violatef(sig+":sequence-differs", "%s", describe())
		}
	case "keyorder":
		// Same multiset, and the same key sequence (values with equal keys
		// may come in any order among themselves).
		sa, sb := append([]string(nil), a...), append([]string(nil), b...)
		sort.Strings(sa)
		sort.Strings(sb)
		if strings.Join(sa, "\n") != strings.Join(sb, "\n") {
			return kernel.Violatef(sig+":multiset-differs", "%s", describe())
		}
		for i := range ref {
			ka, kb := e.Recs[ref[i].U].keyString(), e.Recs[got[i].U].keyString()
			if nullish(e.Recs[ref[i].U]) && nullish(e.Recs[got[i].U]) {
				continue
			}
			if ka != kb {
				return kernel.Violatef(sig+":key-order-differs", "%s\n at position %d the key is %s at p=1 and %s at p=%d", describe(), i, ka, kb, par)
			}
		}
	default:
		sa, sb := append([]string(nil), a...), append([]string(nil), b...)
		sort.Strings(sa)
		sort.Strings(sb)
		if strings.Join(sa, "\n") != strings.Join(sb, "\n") {
			return kernel.Violatef(sig+":multiset-differs", "%s", describe())
		}
	}
	return nil
}
