package lakesim

import (
	"context"
	"fmt"
	"sort"
	"strings"
	"time"

	"github.com/anishathalye/porcupine"
	"github.com/brimdata/super/compiler"
	"github.com/brimdata/super/lake/commits"
	"github.com/segmentio/ksuid"
	"verifsim/kernel"
)

// C12: concurrent clients on one storage; recorded history checked for
// linearizability against a sequential lake model with porcupine, plus
// replayability of every branch after every completed operation and chain /
// name invariants at the end.

// cop is one concurrent operation: its input (fixed before the run), the
// invoke/return stamps (scheduler step numbers) and its output.
type cop struct {
	Client int      `json:"client"`
	Kind   string   `json:"op"`
	Pool   string   `json:"pool,omitempty"`   // logical pool key ("P1", ...)
	Branch string   `json:"branch,omitempty"` // branch name
	Other  string   `json:"other,omitempty"`  // new name / parent branch
	Objs   []string `json:"objs,omitempty"`   // object ids (from the setup phase)
	Pred   string   `json:"pred,omitempty"`
	Us     []int    `json:"us,omitempty"` // load: batch
	At     string   `json:"at,omitempty"` // branch-create / revert: commit id
	// filled in by the run
	Call, Ret int      `json:"-"`
	Err       string   `json:"err,omitempty"`
	Commit    string   `json:"commit,omitempty"`
	Result    []int    `json:"result,omitempty"` // query: sorted u; list-pools: n/a
	Names     []string `json:"names,omitempty"`
	batch     []Rec
	// learned post hoc from the commit object
	adds, dels, addVecs, delVecs []string
	parent                       string
	opaque                       bool // commit object unreadable (pool dropped): effect unknown
}

// lstate is the sequential model state.  It is treated as immutable: every
// step returns a fresh copy.
type lstate struct {
	pools    map[string]string            // name -> pool key
	branches map[string]map[string]string // pool key -> branch -> canonical object set (sorted ids joined by ",")
	vecs     map[string]string            // pool key + "/" + branch -> canonical vector set
}

func (s *lstate) clone() *lstate {
	n := &lstate{pools: map[string]string{}, branches: map[string]map[string]string{}, vecs: map[string]string{}}
	for k, v := range s.pools {
		n.pools[k] = v
	}
	for k, v := range s.branches {
		m := map[string]string{}
		for b, o := range v {
			m[b] = o
		}
		n.branches[k] = m
	}
	for k, v := range s.vecs {
		n.vecs[k] = v
	}
	return n
}

func (s *lstate) key() string {
	var parts []string
	for n, p := range s.pools {
		parts = append(parts, "pool "+n+"="+p)
	}
	for p, bs := range s.branches {
		for b, o := range bs {
			parts = append(parts, "br "+p+"/"+b+"="+o+" v="+s.vecs[p+"/"+b])
		}
	}
	sort.Strings(parts)
	return strings.Join(parts, ";")
}

func splitSet(s string) map[string]bool {
	m := map[string]bool{}
	if s == "" {
		return m
	}
	for _, x := range strings.Split(s, ",") {
		m[x] = true
	}
	return m
}

func joinSet(m map[string]bool) string {
	var out []string
	for k := range m {
		out = append(out, k)
	}
	sort.Strings(out)
	return strings.Join(out, ",")
}

// c12Model carries the static knowledge the step function needs.
type c12Model struct {
	objUs      map[string][]int        // object id -> values
	predTrue   map[string]map[int]bool // predicate -> set of u for which it is true (over all records of the run)
	poolOf     map[string]string       // pool key -> current... (unused)
	commitObjs map[string]string       // commit id -> canonical object set (setup commits, for branch-create)
}

func (m *c12Model) content(set string) []int {
	var us []int
	for id := range splitSet(set) {
		us = append(us, m.objUs[id]...)
	}
	sort.Ints(us)
	return us
}

func sameInts(a, b []int) bool {
	if len(a) != len(b) {
		return false
	}
	for i := range a {
		if a[i] != b[i] {
			return false
		}
	}
	return true
}

// step is the sequential specification.
func (m *c12Model) step(st *lstate, op *cop) (bool, *lstate) {
	if op.Err != "" {
		// A failed operation is a no-op; failing is always allowed while
		// other clients are active (no liveness is demanded under contention).
		return true, st
	}
	switch op.Kind {
	case "list-pools":
		var names []string
		for n := range st.pools {
			names = append(names, n)
		}
		sort.Strings(names)
		return strings.Join(names, ",") == strings.Join(op.Names, ","), st
	case "pool-create":
		if _, ok := st.pools[op.Other]; ok {
			return false, st
		}
		n := st.clone()
		n.pools[op.Other] = op.Commit // the new pool's id is the op's output
		n.branches[op.Commit] = map[string]string{"main": ""}
		return true, n
	case "pool-rename":
		name := ""
		for nm, k := range st.pools {
			if k == op.Pool {
				name = nm
			}
		}
		if name == "" {
			return false, st
		}
		if _, ok := st.pools[op.Other]; ok {
			return false, st
		}
		n := st.clone()
		delete(n.pools, name)
		n.pools[op.Other] = op.Pool
		return true, n
	case "pool-drop":
		name := ""
		for nm, k := range st.pools {
			if k == op.Pool {
				name = nm
			}
		}
		if name == "" {
			return false, st
		}
		n := st.clone()
		delete(n.pools, name)
		delete(n.branches, op.Pool)
		return true, n
	}
	brs, ok := st.branches[op.Pool]
	if !ok {
		return false, st // success on a pool that does not exist
	}
	switch op.Kind {
	case "branch-create":
		if _, ok := brs[op.Other]; ok {
			return false, st
		}
		n := st.clone()
		n.branches[op.Pool][op.Other] = m.commitObjs[op.At]
		return true, n
	case "branch-drop":
		if _, ok := brs[op.Branch]; !ok {
			return false, st
		}
		n := st.clone()
		delete(n.branches[op.Pool], op.Branch)
		delete(n.vecs, op.Pool+"/"+op.Branch)
		return true, n
	}
	target := op.Branch
	if op.Kind == "merge" {
		target = op.Other
	}
	cur, ok := brs[target]
	if !ok {
		return false, st
	}
	if op.Kind == "query" {
		if cur == "?" {
			return true, st
		}
		return sameInts(m.content(cur), op.Result), st
	}
	if op.opaque || cur == "?" || (op.Kind == "merge" && brs[op.Branch] == "?") {
		// The commit's effect could not be read back (its pool was dropped
		// later in the run): the branch content is unknown from here on.
		n := st.clone()
		n.branches[op.Pool][target] = "?"
		return true, n
	}
	// Committing operations: the commit's own action list (read post hoc from
	// the immutable commit object) must be applicable to the current state
	// and have the effect the operation promises.
	set := splitSet(cur)
	vset := splitSet(st.vecs[op.Pool+"/"+target])
	for _, id := range op.dels {
		if !set[id] {
			return false, st
		}
	}
	for _, id := range op.adds {
		if set[id] {
			return false, st
		}
	}
	before := m.content(cur)
	for _, id := range op.dels {
		delete(set, id)
		delete(vset, id)
	}
	for _, id := range op.adds {
		set[id] = true
	}
	for _, id := range op.addVecs {
		if !set[id] || vset[id] {
			return false, st
		}
		vset[id] = true
	}
	for _, id := range op.delVecs {
		if !vset[id] {
			return false, st
		}
		delete(vset, id)
	}
	after := m.content(joinSet(set))
	switch op.Kind {
	case "load":
		if len(op.dels) != 0 {
			return false, st
		}
		want := append(append([]int(nil), before...), op.Us...)
		sort.Ints(want)
		if !sameInts(after, want) {
			return false, st
		}
	case "delete":
		if len(op.adds) != 0 || joinSet(splitSet(strings.Join(op.dels, ","))) != joinSet(splitSet(strings.Join(op.Objs, ","))) {
			return false, st
		}
	case "delete-where":
		t := m.predTrue[op.Pred]
		var want []int
		for _, u := range before {
			if !t[u] {
				want = append(want, u)
			}
		}
		if !sameInts(after, want) {
			return false, st
		}
	case "compact":
		if joinSet(splitSet(strings.Join(op.dels, ","))) != joinSet(splitSet(strings.Join(op.Objs, ","))) || !sameInts(before, after) {
			return false, st
		}
	case "vector-add":
		if len(op.adds)+len(op.dels)+len(op.delVecs) != 0 || joinSet(splitSet(strings.Join(op.addVecs, ","))) != joinSet(splitSet(strings.Join(op.Objs, ","))) {
			return false, st
		}
	case "merge":
		// Everything the merge adds must be part of the child at this
		// moment, everything it deletes must be absent from the child.
		child, ok := brs[op.Branch]
		if !ok {
			return false, st
		}
		cset := splitSet(child)
		for _, id := range op.adds {
			if !cset[id] {
				return false, st
			}
		}
		for _, id := range op.dels {
			if cset[id] {
				return false, st
			}
		}
	case "revert":
		// Applicability (checked above) is all that is demanded here; the
		// exact revert semantics are C15's.
	}
	n := st.clone()
	n.branches[op.Pool][target] = joinSet(set)
	n.vecs[op.Pool+"/"+target] = joinSet(vset)
	return true, n
}

type c12Desc struct {
	Storage string `json:"storage"`
	Policy  string `json:"sched_policy"`
	Setup   []Op   `json:"setup"`
	Clients int    `json:"clients"`
	Ops     []*cop `json:"concurrent_ops"`
	Final   []*cop `json:"final_ops"`
	Lin     string `json:"linearizable"`
	Steps   int    `json:"steps"`
}

func runC12(tape *kernel.Tape) *kernel.Outcome {
	out := &kernel.Outcome{}
	var viol *kernel.Violation
	desc := &c12Desc{}
	p, leaked := InBubble(func() {
		mode := simdiskMode(tape)
		w := NewWorld(tape, mode, out)
		defer w.Disk.Close()
		viol = c12Body(w, desc)
		w.Finish()
	})
	out.Desc = desc
	if p != nil {
		msg := fmt.Sprint(p.val)
		if strings.Contains(msg, "deadlock") {
			out.Violation = kernel.Violatef("C12:deadlock", "all clients blocked forever with no timer pending: %s", msg)
			return out
		}
		panic(fmt.Sprintf("%v\n%s", p.val, p.stack))
	}
	if leaked {
		out.Probe("goroutines-left-blocked-at-end-of-run")
	}
	out.Violation = viol
	return out
}

// c12Body is the bubble's root: it runs the setup task, then the concurrent
// clients, then the final phase, driving the scheduler in between.
func c12Body(w *World, desc *c12Desc) *kernel.Violation {
	sig := "C12"
	kn, wl := w.Kn, w.Wl
	compiler.Parallelism = 1
	desc.Storage, desc.Policy = w.Disk.Mode.String(), w.Sched.PolicyName()
	w.Out.Bucket = desc.Storage
	var setupViol *kernel.Violation
	var r *SeqRun
	sdesc := &seqDesc{}
	// ---- setup phase (sequential) ----
	w.Sched.Go(func() {
		defer recoverTo(&setupViol, sig)
		var v *kernel.Violation
		r, v = seqSetup(w, sig, sdesc)
		if v != nil {
			setupViol = v
			return
		}
		r.NoClientScans = true
		nsetup := kn.Range(0, 6)
		if kn.Chance(1, 5) {
			nsetup = kn.Range(9, 14)
		}
		for i := 0; i < nsetup; i++ {
			op := Op{Kind: "load", Branch: "main", N: wl.Range(1, 4)}
			if i > 0 && wl.Chance(1, 6) {
				op = r.GenOp(wl)
			}
			op, v := r.Do(wl, op, i, false)
			sdesc.Ops = append(sdesc.Ops, op)
			if v != nil {
				w.Out.Bucket = "setup-misbehaves"
				r = nil
				return
			}
		}
		if kn.Chance(1, 3) && len(r.Acked) > 0 {
			op, v := r.Do(wl, Op{Kind: "branch-create", Other: "b1", Commit: len(r.Acked)}, 99, false)
			sdesc.Ops = append(sdesc.Ops, op)
			if v != nil {
				r = nil
			}
		}
	})
	w.Sched.Run()
	desc.Setup = sdesc.Ops
	if setupViol != nil || r == nil {
		if setupViol != nil && strings.Contains(setupViol.Signature, "panic") {
			return setupViol
		}
		return nil // sequential misbehaviour is C14's business
	}
	e := r.E
	ctx := e.Ctx
	// ---- model initial state ----
	model := &c12Model{objUs: map[string][]int{}, predTrue: map[string]map[int]bool{}, commitObjs: map[string]string{ksuid.Nil.String(): ""}}
	for id, info := range e.Objs {
		model.objUs[id.String()] = info.Us
	}
	for c, objs := range r.CObjs {
		m := map[string]bool{}
		for id := range objs {
			m[id.String()] = true
		}
		model.commitObjs[c.String()] = joinSet(m)
	}
	poolKey := r.PM.ID.String()
	st0 := &lstate{pools: map[string]string{r.PM.Spec.Name: poolKey}, branches: map[string]map[string]string{poolKey: {}}, vecs: map[string]string{}}
	for name, b := range r.Br {
		m, vm := map[string]bool{}, map[string]bool{}
		for id := range b.Objs {
			m[id.String()] = true
		}
		for id := range b.Vecs {
			vm[id.String()] = true
		}
		st0.branches[poolKey][name] = joinSet(m)
		st0.vecs[poolKey+"/"+name] = joinSet(vm)
	}
	specs := map[string]*PoolSpec{poolKey: &r.PM.Spec}

	// ---- generate the concurrent operations ----
	nclients := kn.Range(2, 4)
	desc.Clients = nclients
	var clients []*Client
	for i := 0; i < nclients; i++ {
		// Opened from the bubble's root (no scheduler running yet), so
		// without yielding; the handle yields from now on.
		c, err := w.Open(ctx, fmt.Sprintf("c%d", i+1), false)
		if err != nil {
			return kernel.Violatef(sig+":unexpected-error:open", "opening the lake failed without contention: %v", err)
		}
		c.H.Yield = true
		clients = append(clients, c)
	}
	branchNames := r.branchNames()
	mainObjs := func(b string) []string {
		var out []string
		for _, id := range r.Br[b].Objs.sorted() {
			out = append(out, id.String())
		}
		return out
	}
	// Workload mix (swarm style): most runs draw from everything; some
	// concentrate on pool-level operations (create, rename, drop, list, with
	// loads and queries in between), where the races are between a pool's
	// registration in the pools journal and its directory.
	weights := []int{10, 4, 3, 3, 2, 5, 2, 1, 1, 1, 2, 1, 1, 1}
	poolFocus := kn.Chance(1, 5)
	if poolFocus {
		weights = []int{4, 1, 1, 0, 0, 3, 5, 5, 6, 4, 1, 0, 0, 0}
		w.Out.Probe("pool-focused-mix")
	}
	genOp := func(ci int) *cop {
		op := &cop{Client: ci, Pool: poolKey}
		b := branchNames[wl.Intn(len(branchNames))]
		op.Branch = b
		objs := mainObjs(b)
		pick := func(n int) []string {
			cand := append([]string(nil), objs...)
			var out []string
			for len(out) < n && len(cand) > 0 {
				i := wl.Intn(len(cand))
				out = append(out, cand[i])
				cand = append(cand[:i], cand[i+1:]...)
			}
			sort.Strings(out)
			return out
		}
		for tries := 0; tries < 10; tries++ {
			switch wl.Pick(weights...) {
			case 0:
				op.Kind = "load"
				op.batch = e.GenBatch(wl, &r.PM.Spec, wl.Range(1, 4), r.KeyRange)
				for _, rec := range op.batch {
					op.Us = append(op.Us, rec.U)
				}
				sort.Ints(op.Us)
				return op
			case 1:
				if len(objs) == 0 {
					continue
				}
				op.Kind, op.Objs = "delete", pick(wl.Range(1, 2))
				return op
			case 2:
				op.Kind = "delete-where"
				if e.NextU > 0 && wl.Chance(2, 3) {
					op.Pred = fmt.Sprintf("u == %d", 1+wl.Intn(e.NextU))
				} else {
					op.Pred = GenPred(wl, &r.PM.Spec, r.KeyRange, e.NextU, 1)
				}
				return op
			case 3:
				if len(objs) < 2 {
					continue
				}
				op.Kind, op.Objs = "compact", pick(wl.Range(2, 3))
				return op
			case 4:
				if len(objs) == 0 {
					continue
				}
				op.Kind, op.Objs = "vector-add", pick(1)
				return op
			case 5:
				op.Kind = "query"
				return op
			case 6:
				// (the main pool's own name too: it is free again once
				// somebody has dropped or renamed that pool)
				op.Kind, op.Other = "pool-create", []string{"p2", "p3", r.PM.Spec.Name}[wl.Intn(3)]
				return op
			case 7:
				op.Kind, op.Other = "pool-rename", []string{"p2", "p3", "p4"}[wl.Intn(3)]
				return op
			case 8:
				if !poolFocus && !wl.Chance(1, 3) {
					continue
				}
				op.Kind = "pool-drop"
				return op
			case 9:
				op.Kind = "list-pools"
				return op
			case 10:
				op.Kind, op.Other = "branch-create", []string{"b1", "b2"}[wl.Intn(2)]
				op.At = r.Br[b].Tip.String()
				if r.anyVacuumed(r.Br[b].Objs) {
					continue
				}
				return op
			case 11:
				if b == "main" {
					continue
				}
				op.Kind = "branch-drop"
				return op
			case 12:
				if len(branchNames) < 2 {
					continue
				}
				o := branchNames[wl.Intn(len(branchNames))]
				if o == b {
					continue
				}
				op.Kind, op.Other = "merge", o
				return op
			case 13:
				if len(r.Acked) == 0 {
					continue
				}
				op.Kind, op.At = "revert", r.Acked[wl.Intn(len(r.Acked))].String()
				return op
			}
		}
		op.Kind = "query"
		return op
	}
	perClient := make([][]*cop, nclients)
	for ci := 0; ci < nclients; ci++ {
		for j, n := 0, wl.Range(1, 3); j < n; j++ {
			op := genOp(ci)
			perClient[ci] = append(perClient[ci], op)
			desc.Ops = append(desc.Ops, op)
		}
	}
	// Predicate truth over every record of the run (static).
	var allRecs []Rec
	for u := 1; u <= e.NextU; u++ {
		allRecs = append(allRecs, e.Recs[u])
	}
	for _, op := range desc.Ops {
		if op.Kind == "delete-where" {
			if _, ok := model.predTrue[op.Pred]; !ok {
				t, err := EvalWhere(ctx, &r.PM.Spec, allRecs, op.Pred)
				if err != nil {
					op.Kind = "query" // the reference evaluator rejects it
					continue
				}
				model.predTrue[op.Pred] = t
			}
		}
	}

	// ---- concurrent phase ----
	var replayViol *kernel.Violation
	var panicViol *kernel.Violation
	checkReplayable := func(when string) {
		if replayViol != nil || w.Disk.MetaPutOpen() {
			return
		}
		if v := c12Replayable(w, e, when); v != nil {
			replayViol = v
		}
	}
	for ci := range clients {
		ci := ci
		w.Sched.Go(func() {
			defer recoverTo(&panicViol, sig)
			for _, op := range perClient[ci] {
				op.Call = w.Sched.Step()
				c12Issue(ctx, clients[ci], op, specs)
				op.Ret = w.Sched.Step()
				checkReplayable(fmt.Sprintf("after client %d finished %s", ci+1, op.Kind))
			}
		})
	}
	w.Sched.Run()
	if panicViol != nil {
		return panicViol
	}
	concurrentSteps := w.Sched.Steps()
	// ---- final phase: contention has stopped, every client commits ----
	base := w.Sched.Steps() + 1
	var finalViol *kernel.Violation
	w.Sched.Go(func() {
		defer recoverTo(&panicViol, sig)
		for ci, c := range clients {
			op := &cop{Client: ci, Kind: "load", Pool: poolKey, Branch: "main"}
			op.batch = e.GenBatch(wl, &r.PM.Spec, 2, r.KeyRange)
			for _, rec := range op.batch {
				op.Us = append(op.Us, rec.U)
			}
			sort.Ints(op.Us)
			op.Call = base + 2*ci
			c12Issue(ctx, c, op, specs)
			op.Ret = base + 2*ci + 1
			desc.Final = append(desc.Final, op)
			if op.Err != "" && finalViol == nil {
				// Legitimate only if the pool or branch is gone.
				if !strings.Contains(op.Err, "not found") && !strings.Contains(op.Err, "does not exist") && !strings.Contains(op.Err, "no such") {
					finalViol = kernel.Violatef(sig+":no-progress-after-contention", "after all concurrent operations had returned, client %d's load on main failed: %s", ci+1, op.Err)
				}
			}
		}
	})
	w.Sched.Run()
	desc.Steps = concurrentSteps
	if panicViol != nil {
		return panicViol
	}
	if replayViol != nil {
		return replayViol
	}
	w.Out.Nontrivial = w.Sched.Preemptions > 0
	// ---- learn the commits' action lists post hoc ----
	all := append(append([]*cop(nil), desc.Ops...), desc.Final...)
	if v := c12Learn(w, e, all, model, sig); v != nil {
		return v
	}
	// ---- linearizability ----
	var ops []porcupine.Operation
	for i, op := range all {
		ops = append(ops, porcupine.Operation{ClientId: op.Client, Input: i, Call: int64(op.Call), Output: i, Return: int64(op.Ret)})
	}
	pm := porcupine.Model{
		Init: func() interface{} { return st0 },
		Step: func(state, input, output interface{}) (bool, interface{}) {
			ok, n := model.step(state.(*lstate), all[input.(int)])
			return ok, n
		},
		Equal: func(a, b interface{}) bool { return a.(*lstate).key() == b.(*lstate).key() },
	}
	res := porcupine.CheckOperationsTimeout(pm, ops, 20*time.Second)
	desc.Lin = string(res)
	switch res {
	case porcupine.Ok:
		w.Out.Probe("porcupine-ok")
	case porcupine.Unknown:
		w.Out.Probe("porcupine-unknown")
	case porcupine.Illegal:
		var lines []string
		for i, op := range all {
			lines = append(lines, fmt.Sprintf("  #%d client %d [%d,%d] %s %s %s objs=%v pred=%q us=%v -> err=%q commit=%s adds=%v dels=%v result=%v names=%v",
				i, op.Client+1, op.Call, op.Ret, op.Kind, op.Branch, op.Other, shortIDs(op.Objs), op.Pred, op.Us, op.Err, short(op.Commit), shortIDs(op.adds), shortIDs(op.dels), op.Result, op.Names))
		}
		return kernel.Violatef(sig+":not-linearizable", "no sequential order of the recorded operations consistent with their real-time order explains their outputs (porcupine: Illegal).\ninitial state: %s\nhistory:\n%s", st0.key(), strings.Join(lines, "\n"))
	}
	if finalViol != nil {
		return finalViol
	}
	// ---- end-state invariants ----
	return c12EndState(w, e, r, all, sig)
}

func short(s string) string {
	if len(s) > 8 {
		return s[len(s)-6:]
	}
	return s
}

func shortIDs(ids []string) []string {
	var out []string
	for _, id := range ids {
		out = append(out, short(id))
	}
	return out
}

func recoverTo(v **kernel.Violation, sig string) {
	if r := recover(); r != nil {
		st := kernel.Stack()
		*v = &kernel.Violation{Signature: sig + ":panic:" + kernel.PanicSite(st), Message: fmt.Sprintf("panic: %v\n%s", r, st)}
	}
}

// c12Issue performs op on client c and records its output.
func c12Issue(ctx context.Context, c *Client, op *cop, specs map[string]*PoolSpec) {
	var err error
	var commit ksuid.KSUID
	pool, _ := ksuid.Parse(op.Pool)
	parse := func(ids []string) []ksuid.KSUID {
		var out []ksuid.KSUID
		for _, s := range ids {
			id, _ := ksuid.Parse(s)
			out = append(out, id)
		}
		return out
	}
	switch op.Kind {
	case "load":
		commit, err = c.Load(ctx, pool, specs[op.Pool], op.Branch, op.batch)
	case "delete":
		commit, err = c.API.Delete(ctx, pool, op.Branch, parse(op.Objs), commitMsg)
	case "delete-where":
		commit, err = c.API.DeleteWhere(ctx, pool, op.Branch, op.Pred, commitMsg)
	case "compact":
		commit, err = c.API.Compact(ctx, pool, op.Branch, parse(op.Objs), false, commitMsg)
	case "vector-add":
		// The pool is addressed by its ID (the API resolves an ID string
		// before it tries names): one lake operation, not a name lookup
		// followed by one, which would not be a single operation of the
		// history (the name may pass to another pool in between).
		commit, err = c.API.AddVectors(ctx, op.Pool, op.Branch, parse(op.Objs), commitMsg)
	case "query":
		vals, qerr := c.Query(ctx, fmt.Sprintf("from %s@%s", op.Pool, op.Branch))
		err = qerr
		if qerr == nil {
			op.Result = sortedCopy(Us(vals))
			if op.Result == nil {
				op.Result = []int{}
			}
		}
	case "pool-create":
		spec := PoolSpec{Name: op.Other, KeyPath: "k"}
		commit, err = c.CreatePool(ctx, &spec)
	case "pool-rename":
		err = c.API.RenamePool(ctx, pool, op.Other)
	case "pool-drop":
		err = c.API.RemovePool(ctx, pool)
	case "list-pools":
		cfg, e2 := c.Root.ListPools(ctx)
		err = e2
		op.Names = []string{}
		for _, p := range cfg {
			op.Names = append(op.Names, p.Name)
		}
		sort.Strings(op.Names)
	case "branch-create":
		at, _ := ksuid.Parse(op.At)
		err = c.API.CreateBranch(ctx, pool, op.Other, at)
	case "branch-drop":
		err = c.API.RemoveBranch(ctx, pool, op.Branch)
	case "merge":
		commit, err = c.API.MergeBranch(ctx, pool, op.Branch, op.Other, commitMsg)
	case "revert":
		at, _ := ksuid.Parse(op.At)
		commit, err = c.API.Revert(ctx, pool, op.Branch, at, commitMsg)
	}
	if err != nil {
		op.Err = err.Error()
		if op.Err == "" {
			op.Err = "error"
		}
		return
	}
	if commit != ksuid.Nil {
		op.Commit = commit.String()
	}
}

// c12Replayable: at this instant every branch of every pool can be replayed
// (its snapshot computed) from a cold, read-only handle.
func c12Replayable(w *World, e *Env, when string) *kernel.Violation {
	obs, err := w.Open(e.Ctx, "observer", false)
	if err != nil {
		return kernel.Violatef("C12:unreplayable", "%s: the lake cannot be opened: %v", when, err)
	}
	pools, err := obs.Root.ListPools(e.Ctx)
	if err != nil {
		return kernel.Violatef("C12:unreplayable", "%s: the pool table cannot be read: %v", when, err)
	}
	seen := map[string]bool{}
	for _, pc := range pools {
		if seen[pc.Name] {
			return kernel.Violatef("C12:duplicate-pool-name", "%s: pool name %q is listed twice", when, pc.Name)
		}
		seen[pc.Name] = true
		pool, err := obs.Root.OpenPool(e.Ctx, pc.ID)
		if err != nil {
			// A pool's directory is made before its name is registered and
			// removed after its name is struck: a listed pool can be opened
			// at every instant.
			return kernel.Violatef("C12:listed-pool-cannot-be-opened", "%s: pool %q is listed but cannot be opened: %v", when, pc.Name, err)
		}
		brs, err := pool.ListBranches(e.Ctx)
		if err != nil {
			return kernel.Violatef("C12:unreplayable", "%s: branches of pool %q cannot be listed: %v", when, pc.Name, err)
		}
		for _, b := range brs {
			if b.Commit == ksuid.Nil {
				continue
			}
			if _, err := pool.Snapshot(e.Ctx, b.Commit); err != nil {
				if strings.Contains(err.Error(), "does not exist") || strings.Contains(err.Error(), "not exist") {
					// pool directory removed concurrently
					continue
				}
				return kernel.Violatef("C12:unreplayable", "%s: branch %s/%s at %s cannot be replayed: %v", when, pc.Name, b.Name, b.Commit, err)
			}
		}
	}
	w.Out.Probe("replayability-checked")
	return nil
}

// c12Learn reads every acknowledged commit object and learns its actions and
// the contents of the objects it adds.
func c12Learn(w *World, e *Env, all []*cop, model *c12Model, sig string) *kernel.Violation {
	obs, err := w.Open(e.Ctx, "observer", false)
	if err != nil {
		return kernel.Violatef(sig+":unreplayable", "at the end the lake cannot be opened: %v", err)
	}
	for _, op := range all {
		if op.Commit == "" || op.Kind == "pool-create" {
			continue
		}
		poolID, _ := ksuid.Parse(op.Pool)
		pool, err := obs.Root.OpenPool(e.Ctx, poolID)
		if err != nil {
			// The pool was dropped meanwhile and took its commit objects
			// with it: the effect of this commit can no longer be read.
			op.opaque = true
			continue
		}
		b, err := storageGet(e.Ctx, obs, pool.Path.JoinPath("commits", op.Commit+".zng"))
		if err != nil {
			return kernel.Violatef(sig+":acked-commit-missing", "%s on %s was acknowledged with commit %s but its commit object cannot be read: %v", op.Kind, op.Branch, op.Commit, err)
		}
		o, err := commits.DecodeObject(strings.NewReader(string(b)))
		if err != nil {
			return kernel.Violatef(sig+":acked-commit-missing", "commit object %s: %v", op.Commit, err)
		}
		op.parent = o.Parent.String()
		pm := &PoolM{Spec: PoolSpec{Name: pool.Name, KeyPath: "k"}, ID: poolID}
		if sp, ok := e.Pools["p1"]; ok && sp.ID == poolID {
			pm.Spec = sp.Spec
		}
		for _, a := range o.Actions {
			switch a := a.(type) {
			case *commits.Add:
				obj := a.Object
				info, v := e.LearnObject(obs, pm, &obj, sig)
				if v != nil {
					if strings.Contains(v.Signature, "unreadable") {
						// Object vacuumed or pool gone: cannot judge.
						continue
					}
					return v
				}
				model.objUs[obj.ID.String()] = info.Us
				op.adds = append(op.adds, obj.ID.String())
			case *commits.Delete:
				op.dels = append(op.dels, a.ID.String())
			case *commits.AddVector:
				op.addVecs = append(op.addVecs, a.ID.String())
			case *commits.DeleteVector:
				op.delVecs = append(op.delVecs, a.ID.String())
			}
		}
	}
	return nil
}

// c12EndState: every acknowledged commit occurs exactly once on its branch's
// parent chain, nothing unacknowledged is reachable, names are unique.
func c12EndState(w *World, e *Env, r *SeqRun, all []*cop, sig string) *kernel.Violation {
	obs, err := w.Open(e.Ctx, "observer", false)
	if err != nil {
		return kernel.Violatef(sig+":unreplayable", "at the end the lake cannot be opened: %v", err)
	}
	if v := c12Replayable(w, e, "at the end"); v != nil {
		return v
	}
	pool, err := obs.Root.OpenPool(e.Ctx, r.PM.ID)
	if err != nil {
		return nil // dropped by a client
	}
	known := map[string]string{} // commit id -> who made it
	for _, c := range r.Acked {
		known[c.String()] = "setup"
	}
	acked := map[string]*cop{}
	for _, op := range all {
		if op.Commit != "" && op.Kind != "pool-create" && op.Pool == r.PM.ID.String() {
			known[op.Commit] = op.Kind
			acked[op.Commit] = op
		}
	}
	brs, err := pool.ListBranches(e.Ctx)
	if err != nil {
		return kernel.Violatef(sig+":unreplayable", "at the end: %v", err)
	}
	onSomeChain := map[string]int{}
	for _, b := range brs {
		seenOnChain := map[string]bool{}
		for at := b.Commit; at != ksuid.Nil; {
			id := at.String()
			if seenOnChain[id] {
				return kernel.Violatef(sig+":chain-cycle", "branch %s: commit %s occurs twice on its parent chain", b.Name, id)
			}
			seenOnChain[id] = true
			if _, ok := known[id]; !ok {
				return kernel.Violatef(sig+":unacknowledged-commit-reachable", "branch %s: commit %s is on the parent chain but no operation was acknowledged with it (a failed operation left a trace)", b.Name, id)
			}
			raw, err := storageGet(e.Ctx, obs, pool.Path.JoinPath("commits", id+".zng"))
			if err != nil {
				return kernel.Violatef(sig+":unreplayable", "branch %s: commit object %s on the chain cannot be read: %v", b.Name, id, err)
			}
			o, err := commits.DecodeObject(strings.NewReader(string(raw)))
			if err != nil {
				return kernel.Violatef(sig+":unreplayable", "branch %s: commit object %s: %v", b.Name, id, err)
			}
			onSomeChain[id]++
			at = o.Parent
		}
	}
	// Every acknowledged commit on a branch that still exists, and that has
	// not been superseded by dropping/recreating the branch, is on a chain.
	exists := map[string]bool{}
	for _, b := range brs {
		exists[b.Name] = true
	}
	dropped := map[string]bool{}
	for _, op := range all {
		if op.Kind == "branch-drop" && op.Err == "" {
			dropped[op.Branch] = true
		}
	}
	for id, op := range acked {
		target := op.Branch
		if op.Kind == "merge" {
			target = op.Other
		}
		if !exists[target] || dropped[target] {
			continue
		}
		if onSomeChain[id] == 0 {
			return kernel.Violatef(sig+":acknowledged-commit-lost", "%s by client %d on %q was acknowledged with commit %s, which is on no branch's parent chain at the end (lost update)", op.Kind, op.Client+1, target, id)
		}
	}
	w.Out.Probe("end-state-checked")
	return nil
}
