package lakesim

import (
	"context"
	"fmt"
	"sort"
	"strings"

	"github.com/brimdata/super"
	"github.com/brimdata/super/compiler"
	"github.com/brimdata/super/runtime"
	"github.com/brimdata/super/zio"
	"github.com/segmentio/ksuid"
	"verifsim/kernel"
)

// Op is one generated lake operation of a sequential history.
type Op struct {
	Kind    string   `json:"op"`
	Branch  string   `json:"branch,omitempty"`
	N       int      `json:"n,omitempty"`     // load: batch size
	Objs    []int    `json:"objs,omitempty"`  // indexes into the current snapshot's object list
	Pred    string   `json:"pred,omitempty"`  // delete-where
	Vectors bool     `json:"vectors,omitempty"`
	Result  string   `json:"result,omitempty"`
	Us      []int    `json:"-"`
}

// predGrammar draws a delete-where / filter predicate over the fields the
// generated records have: pool key (k or n.k), d (small int), u (unique int).
func GenPred(s *kernel.Stream, spec *PoolSpec, keyRange, maxU int, depth int) string {
	key := spec.KeyPath
	if key == "this" {
		key = "u"
	}
	atom := func() string {
		ops := []string{"==", "<", "<=", ">", ">=", "!="}
		op := ops[s.Intn(len(ops))]
		switch s.Pick(6, 3, 2, 1, 1) {
		case 0: // key op const / const op key
			c := s.Intn(keyRange+2) - 1
			if s.Chance(1, 3) {
				return fmt.Sprintf("%d %s %s", c, op, key)
			}
			return fmt.Sprintf("%s %s %d", key, op, c)
		case 1: // non-key
			return fmt.Sprintf("d %s %d", op, s.Intn(6)-2)
		case 2: // unique id range
			return fmt.Sprintf("u %s %d", op, s.Intn(maxU+2))
		case 3: // key against other literal types
			lits := []string{"\"a\"", "1.5", "null", "\"\"", "0."}
			return fmt.Sprintf("%s %s %s", key, op, lits[s.Intn(len(lits))])
		default: // a predicate that errors on some values (division by zero)
			return fmt.Sprintf("10/d %s %d", op, s.Intn(6))
		}
	}
	var gen func(d int) string
	gen = func(d int) string {
		if d <= 0 || s.Chance(1, 2) {
			return atom()
		}
		switch s.Intn(3) {
		case 0:
			return "(" + gen(d-1) + " and " + gen(d-1) + ")"
		case 1:
			return "(" + gen(d-1) + " or " + gen(d-1) + ")"
		default:
			return "not (" + gen(d-1) + ")"
		}
	}
	return gen(depth)
}

// EvalWhere evaluates pred over recs without any lake: the values go through
// the plain (no pool, no pruner) compiler path.  Returns the set of u for
// which the predicate selected the value.
func EvalWhere(ctx context.Context, spec *PoolSpec, recs []Rec, pred string) (map[int]bool, error) {
	zctx := zed.NewContext()
	r, err := Reader(zctx, spec, recs)
	if err != nil {
		return nil, err
	}
	comp := compiler.NewCompiler()
	seq, sset, err := comp.Parse(pred)
	if err != nil {
		return nil, err
	}
	q, err := runtime.CompileQuery(ctx, zctx, comp, seq, sset, []zio.Reader{r})
	if err != nil {
		return nil, err
	}
	defer q.Pull(true)
	vals, err := drain(q)
	if err != nil {
		return nil, err
	}
	out := map[int]bool{}
	for _, v := range vals {
		out[UOf(v)] = true
	}
	return out, nil
}

// SeqRun is the sequential (one client, fault-free unless a crash is armed)
// history runner shared by C14, C13(a), C16 and C17.
type SeqRun struct {
	E       *Env
	C       *Client
	PM      *PoolM
	Branch  *BranchM
	Objs    []ksuid.KSUID          // objects of the branch's tip snapshot, sorted by id
	Vecs    map[ksuid.KSUID]bool   // objects of the tip with a vector copy
	Added   map[ksuid.KSUID]bool   // every object ever in a snapshot of this branch
	Vacuumed map[ksuid.KSUID]bool
	KeyRange int
	Ops     []Op
}

// objUs is the content of a set of objects.
func (r *SeqRun) objUs(ids []ksuid.KSUID) []int {
	var us []int
	for _, id := range ids {
		us = append(us, r.E.Objs[id].Us...)
	}
	return us
}

// GenOp draws the next operation given the current model state.
func (r *SeqRun) GenOp(s *kernel.Stream) Op {
	n := len(r.Objs)
	pickObjs := func(lo, max int) []int {
		if n == 0 {
			return nil
		}
		k := s.Range(min(lo, n), min(max, n))
		cand := make([]int, n)
		for i := range cand {
			cand[i] = i
		}
		var out []int
		for len(out) < k {
			i := s.Intn(len(cand))
			out = append(out, cand[i])
			cand = append(cand[:i], cand[i+1:]...)
		}
		sort.Ints(out)
		return out
	}
	for {
		switch s.Pick(8, 3, 4, 3, 2, 1, 1) {
		case 0:
			size := s.Range(1, 30)
			if s.Chance(1, 8) {
				size = s.Range(30, 120)
			}
			return Op{Kind: "load", N: size}
		case 1:
			if n == 0 {
				continue
			}
			return Op{Kind: "delete", Objs: pickObjs(1, 3)}
		case 2:
			if n == 0 {
				continue
			}
			return Op{Kind: "delete-where", Pred: GenPred(s, &r.PM.Spec, r.KeyRange, r.E.NextU, 2)}
		case 3:
			if n == 0 {
				continue
			}
			return Op{Kind: "compact", Objs: pickObjs(2, 6), Vectors: s.Chance(1, 3)}
		case 4:
			if n == 0 {
				continue
			}
			return Op{Kind: "vector-add", Objs: pickObjs(1, 3)}
		case 5:
			if n == 0 {
				continue
			}
			return Op{Kind: "vector-del", Objs: pickObjs(1, 3)}
		case 6:
			return Op{Kind: "vacuum"}
		}
	}
}

func (r *SeqRun) ids(idx []int) []ksuid.KSUID {
	var out []ksuid.KSUID
	for _, i := range idx {
		out = append(out, r.Objs[i])
	}
	return out
}

// Apply issues op through the client and returns the acknowledged commit (or
// the error) plus the model's expectation: the content after the operation
// and whether a failure is legitimate.
type Expect struct {
	Content   map[int]bool // content if the op takes effect
	MayFail   bool         // an error is a legitimate outcome
	MustFail  bool         // success would be wrong
	NoCommit  bool         // the op creates no commit (vacuum)
	Batch     []Rec
}

func copySet(m map[int]bool) map[int]bool {
	out := make(map[int]bool, len(m))
	for k := range m {
		out[k] = true
	}
	return out
}

// Expectation computes the model's prediction for op before it is issued.
func (r *SeqRun) Expectation(s *kernel.Stream, op *Op) (*Expect, error) {
	ex := &Expect{Content: copySet(r.Branch.Content)}
	switch op.Kind {
	case "load":
		ex.Batch = r.E.GenBatch(s, &r.PM.Spec, op.N, r.KeyRange)
		for _, rec := range ex.Batch {
			ex.Content[rec.U] = true
			op.Us = append(op.Us, rec.U)
		}
	case "delete":
		for _, u := range r.objUs(r.ids(op.Objs)) {
			delete(ex.Content, u)
		}
	case "delete-where":
		var recs []Rec
		for u := range r.Branch.Content {
			recs = append(recs, r.E.Recs[u])
		}
		sort.Slice(recs, func(i, j int) bool { return recs[i].U < recs[j].U })
		sel, err := EvalWhere(r.E.Ctx, &r.PM.Spec, recs, op.Pred)
		if err != nil {
			return nil, fmt.Errorf("reference evaluation of %q: %w", op.Pred, err)
		}
		for u := range sel {
			delete(ex.Content, u)
		}
		if len(sel) == 0 {
			ex.MayFail = true // "empty transaction"
		}
	case "compact":
		if len(op.Objs) < 2 {
			ex.MayFail = true // "two or more source objects required"
		}
	case "vector-add":
		for _, id := range r.ids(op.Objs) {
			if r.Vecs[id] {
				ex.MustFail = true
			}
		}
	case "vector-del":
		for _, id := range r.ids(op.Objs) {
			if !r.Vecs[id] {
				ex.MustFail = true
			}
		}
	case "vacuum":
		ex.NoCommit = true
	}
	return ex, nil
}

// Issue performs op on client c.
func (r *SeqRun) Issue(c *Client, op *Op, ex *Expect) (ksuid.KSUID, []ksuid.KSUID, error) {
	ctx := r.E.Ctx
	pool, branch := r.PM.ID, r.Branch.Name
	switch op.Kind {
	case "load":
		id, err := c.Load(ctx, pool, &r.PM.Spec, branch, ex.Batch)
		return id, nil, err
	case "delete":
		id, err := c.API.Delete(ctx, pool, branch, r.ids(op.Objs), commitMsg)
		return id, nil, err
	case "delete-where":
		id, err := c.API.DeleteWhere(ctx, pool, branch, op.Pred, commitMsg)
		return id, nil, err
	case "compact":
		id, err := c.API.Compact(ctx, pool, branch, r.ids(op.Objs), op.Vectors, commitMsg)
		return id, nil, err
	case "vector-add":
		id, err := c.API.AddVectors(ctx, r.PM.Spec.Name, branch, r.ids(op.Objs), commitMsg)
		return id, nil, err
	case "vector-del":
		id, err := c.API.DeleteVectors(ctx, r.PM.Spec.Name, branch, r.ids(op.Objs), commitMsg)
		return id, nil, err
	case "vacuum":
		ids, err := c.API.Vacuum(ctx, r.PM.Spec.Name, branch, false)
		return ksuid.Nil, ids, err
	}
	panic("unknown op " + op.Kind)
}

// Refresh re-reads the tip snapshot's object list through the observer.
func (r *SeqRun) Refresh(sig, when string) *kernel.Violation {
	objs, vecs, obs, err := r.E.ObserveSnapshot(r.PM, r.Branch.Tip)
	if err != nil {
		return kernel.Violatef(sig+":unreadable", "%s: %v", when, err)
	}
	r.Objs = r.Objs[:0]
	for _, o := range objs {
		if _, v := r.E.LearnObject(obs, r.PM, o, sig); v != nil {
			v.Message = when + ": " + v.Message
			return v
		}
		r.Objs = append(r.Objs, o.ID)
		r.Added[o.ID] = true
	}
	sort.Slice(r.Objs, func(i, j int) bool { return strings.Compare(r.Objs[i].String(), r.Objs[j].String()) < 0 })
	r.Vecs = vecs
	return nil
}

// TipOf reads the branch tip cold.
func (e *Env) TipOf(pm *PoolM, branch string) (ksuid.KSUID, error) {
	obs, err := e.W.Open(e.Ctx, "observer", false)
	if err != nil {
		return ksuid.Nil, err
	}
	return obs.API.CommitObject(e.Ctx, pm.ID, branch)
}
