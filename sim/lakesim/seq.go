package lakesim

import (
	"context"
	"fmt"
	"github.com/brimdata/super/compiler/optimizer/demand"
	"github.com/brimdata/super/zio/vngio"
	"sort"
	"strings"

	"github.com/brimdata/super"
	"github.com/brimdata/super/compiler"
	"github.com/brimdata/super/lake/data"
	"github.com/brimdata/super/runtime"
	"github.com/brimdata/super/zio"
	"github.com/segmentio/ksuid"
	"verifsim/kernel"
)

// Op is one generated lake operation of a sequential history.
type Op struct {
	Kind    string `json:"op"`
	Branch  string `json:"branch,omitempty"`
	N       int    `json:"n,omitempty"`    // load: batch size
	Objs    []int  `json:"objs,omitempty"` // indexes into the branch's sorted object list
	Pred    string `json:"pred,omitempty"` // delete-where
	Vectors bool   `json:"vectors,omitempty"`
	Other   string `json:"other,omitempty"`  // merge: parent branch; branch-create: new name; pool ops: name
	Commit  int    `json:"commit,omitempty"` // revert / branch-create: index into the acknowledged commit list (+1; 0 = none/empty)
	Result  string `json:"result,omitempty"`
	Us      []int  `json:"-"`
}

// GenPred draws a delete-where / filter predicate over the fields the
// generated records have: pool key (k or n.k), d (small int), u (unique int).
func GenPred(s *kernel.Stream, spec *PoolSpec, keyRange, maxU int, depth int) string {
	key := spec.KeyPath
	if key == "this" {
		key = "u"
	}
	atom := func() string {
		ops := []string{"==", "<", "<=", ">", ">=", "!="}
		op := ops[s.Intn(len(ops))]
		switch s.Pick(6, 3, 2, 1, 1) {
		case 0: // key op const / const op key
			c := s.Intn(keyRange+2) - 1
			if s.Chance(1, 3) {
				return fmt.Sprintf("%d %s %s", c, op, key)
			}
			return fmt.Sprintf("%s %s %d", key, op, c)
		case 1: // non-key
			return fmt.Sprintf("d %s %d", op, s.Intn(6)-2)
		case 2: // unique id range
			return fmt.Sprintf("u %s %d", op, s.Intn(maxU+2))
		case 3: // key against other literal types
			lits := []string{"\"a\"", "1.5", "null", "\"\"", "0."}
			return fmt.Sprintf("%s %s %s", key, op, lits[s.Intn(len(lits))])
		default: // a predicate that errors on some values (division by zero)
			return fmt.Sprintf("10/d %s %d", op, s.Intn(6))
		}
	}
	var gen func(d int) string
	gen = func(d int) string {
		if d <= 0 || s.Chance(1, 2) {
			return atom()
		}
		switch s.Intn(3) {
		case 0:
			return "(" + gen(d-1) + " and " + gen(d-1) + ")"
		case 1:
			return "(" + gen(d-1) + " or " + gen(d-1) + ")"
		default:
			return "not (" + gen(d-1) + ")"
		}
	}
	return gen(depth)
}

// EvalWhere evaluates pred over recs without any lake: the values go through
// the plain (no pool, no pruner) compiler path.  Returns the set of u for
// which the predicate selected the value.
func EvalWhere(ctx context.Context, spec *PoolSpec, recs []Rec, pred string) (map[int]bool, error) {
	zctx := zed.NewContext()
	r, err := Reader(zctx, spec, recs)
	if err != nil {
		return nil, err
	}
	comp := compiler.NewCompiler()
	seq, sset, err := comp.Parse(pred)
	if err != nil {
		return nil, err
	}
	q, err := runtime.CompileQuery(ctx, zctx, comp, seq, sset, []zio.Reader{r})
	if err != nil {
		return nil, err
	}
	defer q.Pull(true)
	vals, err := drain(q)
	if err != nil {
		return nil, err
	}
	out := map[int]bool{}
	for _, v := range vals {
		out[UOf(v)] = true
	}
	return out, nil
}

type idset map[ksuid.KSUID]bool

func (s idset) copy() idset {
	out := make(idset, len(s))
	for k := range s {
		out[k] = true
	}
	return out
}

func (s idset) sorted() []ksuid.KSUID {
	out := make([]ksuid.KSUID, 0, len(s))
	for k := range s {
		out = append(out, k)
	}
	sort.Slice(out, func(i, j int) bool { return strings.Compare(out[i].String(), out[j].String()) < 0 })
	return out
}

func (s idset) equal(t idset) bool {
	if len(s) != len(t) {
		return false
	}
	for k := range s {
		if !t[k] {
			return false
		}
	}
	return true
}

func idSet(ids []ksuid.KSUID) idset {
	m := idset{}
	for _, id := range ids {
		m[id] = true
	}
	return m
}

// BranchS is the model of one branch: its tip and the (learned, verified)
// object and vector sets of the tip's snapshot.
type BranchS struct {
	Name string
	Tip  ksuid.KSUID
	Objs idset
	Vecs idset
}

// SeqRun is the sequential (one client at a time, fault-free unless a crash
// is armed) history runner shared by C13(a), C14, C15, C16 and C17.
type SeqRun struct {
	E        *Env
	C        *Client
	PM       *PoolM
	Br       map[string]*BranchS
	Parent   map[ksuid.KSUID]ksuid.KSUID
	CObjs    map[ksuid.KSUID]idset // object set per acknowledged commit
	Acked    []ksuid.KSUID         // acknowledged commits in order
	Added    idset                 // every object ever seen in a snapshot
	Vacuumed idset
	KeyRange int
	Sig      string
	// Generation weights.
	BranchOps bool
	// NoClientScans keeps the issuing client from querying after each op, so
	// that derived files (commit snapshots) are only written by the
	// operations themselves (C17 wants their writes among the crash points).
	NoClientScans bool
}

func NewSeqRun(e *Env, c *Client, pm *PoolM, keyRange int, sig string) *SeqRun {
	r := &SeqRun{E: e, C: c, PM: pm, Br: map[string]*BranchS{}, Parent: map[ksuid.KSUID]ksuid.KSUID{},
		CObjs: map[ksuid.KSUID]idset{ksuid.Nil: {}}, Added: idset{}, Vacuumed: idset{}, KeyRange: keyRange, Sig: sig}
	r.Br["main"] = &BranchS{Name: "main", Objs: idset{}, Vecs: idset{}}
	return r
}

func (r *SeqRun) branchNames() []string {
	var out []string
	for n := range r.Br {
		out = append(out, n)
	}
	sort.Strings(out)
	return out
}

// usOf is the content of a set of objects.
func (r *SeqRun) usOf(objs idset) []int {
	var us []int
	for id := range objs {
		us = append(us, r.E.Objs[id].Us...)
	}
	sort.Ints(us)
	return us
}

func (r *SeqRun) usOfIDs(ids []ksuid.KSUID) []int { return r.usOf(idSet(ids)) }

// checkVectorCopy reads the vector copy of a data object through the
// repository's VNG reader and compares its values with the object's.
func (r *SeqRun) checkVectorCopy(id ksuid.KSUID, sig, when string) *kernel.Violation {
	obs, err := r.E.W.Open(r.E.Ctx, "observer", false)
	if err != nil {
		return kernel.Violatef(sig+":unreadable", "%s: %v", when, err)
	}
	pool, err := obs.Root.OpenPool(r.E.Ctx, r.PM.ID)
	if err != nil {
		return kernel.Violatef(sig+":unreadable", "%s: %v", when, err)
	}
	rd, err := obs.H.Get(r.E.Ctx, data.VectorURI(pool.DataPath, id))
	if err != nil {
		return kernel.Violatef(sig+":vector-copy-unreadable", "%s: the snapshot lists a vector copy of object %s that cannot be opened: %v", when, id, err)
	}
	defer rd.Close()
	zr, err := vngio.NewReader(zed.NewContext(), rd, demand.All())
	if err != nil {
		return kernel.Violatef(sig+":vector-copy-unreadable", "%s: the vector copy of object %s cannot be read: %v", when, id, err)
	}
	var us []int
	for {
		v, err := zr.Read()
		if err != nil {
			return kernel.Violatef(sig+":vector-copy-unreadable", "%s: the vector copy of object %s cannot be read: %v", when, id, err)
		}
		if v == nil {
			break
		}
		us = append(us, UOf(*v))
	}
	sort.Ints(us)
	if ok, diff := sameMultiset(us, r.usOfIDs([]ksuid.KSUID{id})); !ok {
		return kernel.Violatef(sig+":vector-copy-content", "%s: the vector copy of object %s holds other values than the object: %s", when, id, diff)
	}
	r.E.W.Out.Probe("vector-copy-read-back")
	return nil
}

// pathOf returns the commits from c back to the root (c first).
func (r *SeqRun) pathOf(c ksuid.KSUID) []ksuid.KSUID {
	var out []ksuid.KSUID
	for c != ksuid.Nil {
		out = append(out, c)
		c = r.Parent[c]
	}
	return out
}

// ancestor is the first commit on child's path that is also on parent's.
func (r *SeqRun) ancestor(parent, child ksuid.KSUID) (ksuid.KSUID, bool) {
	on := idset{}
	for _, c := range r.pathOf(parent) {
		on[c] = true
	}
	for _, c := range r.pathOf(child) {
		if on[c] {
			return c, true
		}
	}
	return ksuid.Nil, false
}

// anyVacuumed reports whether the object set refers to vacuumed objects.
func (r *SeqRun) anyVacuumed(objs idset) bool {
	for id := range objs {
		if r.Vacuumed[id] {
			return true
		}
	}
	return false
}

// GenOp draws the next operation given the current model state.
func (r *SeqRun) GenOp(s *kernel.Stream) Op {
	names := r.branchNames()
	bname := names[0]
	if len(names) > 1 {
		bname = names[s.Intn(len(names))]
	}
	if _, ok := r.Br["main"]; ok && len(names) > 1 && s.Chance(1, 3) {
		bname = "main"
	}
	b := r.Br[bname]
	objs := b.Objs.sorted()
	n := len(objs)
	pickObjs := func(lo, max int) []int {
		if n == 0 {
			return nil
		}
		k := s.Range(min(lo, n), min(max, n))
		cand := make([]int, n)
		for i := range cand {
			cand[i] = i
		}
		var out []int
		for len(out) < k {
			i := s.Intn(len(cand))
			out = append(out, cand[i])
			cand = append(cand[:i], cand[i+1:]...)
		}
		sort.Ints(out)
		return out
	}
	bw := 0
	if r.BranchOps {
		bw = 3
	}
	for tries := 0; tries < 20; tries++ {
		switch s.Pick(8, 3, 4, 3, 2, 1, 1, bw, bw, bw, bw/3) {
		case 0:
			size := s.Range(1, 30)
			if s.Chance(1, 8) {
				size = s.Range(30, 120)
			}
			return Op{Kind: "load", Branch: bname, N: size}
		case 1:
			if n == 0 {
				continue
			}
			return Op{Kind: "delete", Branch: bname, Objs: pickObjs(1, 3)}
		case 2:
			if n == 0 {
				continue
			}
			return Op{Kind: "delete-where", Branch: bname, Pred: GenPred(s, &r.PM.Spec, r.KeyRange, r.E.NextU, 2)}
		case 3:
			if n < 2 {
				continue
			}
			return Op{Kind: "compact", Branch: bname, Objs: pickObjs(2, 6), Vectors: s.Chance(1, 3)}
		case 4:
			if n == 0 {
				continue
			}
			return Op{Kind: "vector-add", Branch: bname, Objs: pickObjs(1, 3)}
		case 5:
			if n == 0 {
				continue
			}
			return Op{Kind: "vector-del", Branch: bname, Objs: pickObjs(1, 3)}
		case 6:
			return Op{Kind: "vacuum", Branch: bname}
		case 7: // branch-create from a tip or an earlier commit
			if len(names) >= 4 {
				continue
			}
			name := fmt.Sprintf("b%d", len(r.Acked)+len(names))
			if _, ok := r.Br[name]; ok {
				continue
			}
			at := 0
			if len(r.Acked) > 0 {
				if s.Chance(2, 3) {
					// tip of the chosen branch
					for i, c := range r.Acked {
						if c == b.Tip {
							at = i + 1
						}
					}
				} else {
					at = s.Range(0, len(r.Acked))
				}
			}
			return Op{Kind: "branch-create", Other: name, Commit: at}
		case 8: // merge child -> parent
			if len(names) < 2 {
				continue
			}
			other := names[s.Intn(len(names))]
			if other == bname {
				continue
			}
			return Op{Kind: "merge", Branch: bname, Other: other}
		case 9: // revert an earlier commit on this branch's path (or any commit)
			if len(r.Acked) == 0 {
				continue
			}
			path := r.pathOf(b.Tip)
			if len(path) > 0 && s.Chance(3, 4) {
				c := path[s.Intn(len(path))]
				for i, a := range r.Acked {
					if a == c {
						return Op{Kind: "revert", Branch: bname, Commit: i + 1}
					}
				}
			}
			return Op{Kind: "revert", Branch: bname, Commit: 1 + s.Intn(len(r.Acked))}
		case 10:
			if bname == "main" || len(names) < 2 {
				continue
			}
			return Op{Kind: "branch-drop", Branch: bname}
		}
	}
	return Op{Kind: "load", Branch: bname, N: 1}
}

func (r *SeqRun) idsOf(b *BranchS, idx []int) []ksuid.KSUID {
	objs := b.Objs.sorted()
	var out []ksuid.KSUID
	for _, i := range idx {
		if i < len(objs) {
			out = append(out, objs[i])
		}
	}
	return out
}

// Expect is the model's prediction for one operation.
type Expect struct {
	Content  []int // sorted content of the target branch if the op takes effect (nil = not predicted at value level)
	Objs     idset // exact object set if the op takes effect (nil = not predicted at object level)
	MayFail  bool  // an error is a legitimate outcome
	MustFail bool  // success would be wrong
	Kind     string
	Batch    []Rec
	IDs      []ksuid.KSUID
	Target   string // branch whose tip moves ("" = none)
	At       ksuid.KSUID
}

// Expectation computes the model's prediction for op before it is issued.
func (r *SeqRun) Expectation(s *kernel.Stream, op *Op) (*Expect, error) {
	ex := &Expect{Kind: op.Kind, Target: op.Branch}
	b := r.Br[op.Branch]
	switch op.Kind {
	case "load":
		ex.Batch = r.E.GenBatch(s, &r.PM.Spec, op.N, r.KeyRange)
		us := r.usOf(b.Objs)
		for _, rec := range ex.Batch {
			us = append(us, rec.U)
			op.Us = append(op.Us, rec.U)
		}
		sort.Ints(us)
		ex.Content = us
	case "delete":
		ex.IDs = r.idsOf(b, op.Objs)
		ex.Objs = b.Objs.copy()
		for _, id := range ex.IDs {
			delete(ex.Objs, id)
		}
		ex.Content = r.usOf(ex.Objs)
	case "delete-where":
		var recs []Rec
		for _, u := range r.usOf(b.Objs) {
			recs = append(recs, r.E.Recs[u])
		}
		sel, err := EvalWhere(r.E.Ctx, &r.PM.Spec, recs, op.Pred)
		if err != nil {
			return nil, fmt.Errorf("reference evaluation of %q: %w", op.Pred, err)
		}
		for _, rec := range recs {
			if !sel[rec.U] {
				ex.Content = append(ex.Content, rec.U)
			}
		}
		if ex.Content == nil {
			ex.Content = []int{}
		}
		if len(sel) == 0 {
			ex.MayFail = true // "empty transaction"
		}
	case "compact":
		ex.IDs = r.idsOf(b, op.Objs)
		ex.Content = r.usOf(b.Objs)
		if len(ex.IDs) < 2 {
			ex.MayFail = true
		}
	case "vector-add", "vector-del":
		ex.IDs = r.idsOf(b, op.Objs)
		ex.Objs = b.Objs.copy()
		ex.Content = r.usOf(b.Objs)
		for _, id := range ex.IDs {
			if b.Vecs[id] == (op.Kind == "vector-add") {
				ex.MustFail = true
			}
		}
	case "vacuum":
		ex.Target = ""
	case "branch-create":
		ex.Target = ""
		if op.Commit > 0 && op.Commit <= len(r.Acked) {
			ex.At = r.Acked[op.Commit-1]
		}
	case "branch-drop":
		ex.Target = ""
	case "merge":
		// op.Branch is the child, op.Other the parent whose tip moves.
		ex.Target = op.Other
		child, parent := b, r.Br[op.Other]
		base, ok := r.ancestor(parent.Tip, child.Tip)
		if !ok {
			// No common ancestor (one side branched from an empty pool).
			ex.MayFail = true
			base = ksuid.Nil
		}
		baseObjs := r.CObjs[base]
		want := parent.Objs.copy()
		for id := range child.Objs {
			if !baseObjs[id] {
				want[id] = true
			}
		}
		for id := range baseObjs {
			if !child.Objs[id] {
				delete(want, id)
			}
		}
		ex.Objs = want
		ex.Content = r.usOf(want)
		// The statement allows any merge to fail with a conflict and leave
		// the parent untouched; the evidence counts successes.
		ex.MayFail = true
	case "revert":
		c := r.Acked[op.Commit-1]
		ex.At = c
		cur, prev := r.CObjs[c], r.CObjs[r.Parent[c]]
		want := b.Objs.copy()
		changed := false
		for id := range cur {
			if !prev[id] && want[id] { // added by c, still present
				delete(want, id)
				changed = true
			}
		}
		for id := range prev {
			if !cur[id] && !want[id] { // deleted by c, still absent
				want[id] = true
				changed = true
			}
		}
		ex.Objs = want
		ex.Content = r.usOf(want)
		if !changed {
			ex.MayFail = true // "empty revert"
		}
		if r.anyVacuumed(want) {
			ex.MayFail = true
		}
	}
	return ex, nil
}

// Issue performs op on client c.
func (r *SeqRun) Issue(c *Client, op *Op, ex *Expect) (ksuid.KSUID, []ksuid.KSUID, error) {
	ctx := r.E.Ctx
	pool := r.PM.ID
	switch op.Kind {
	case "load":
		id, err := c.Load(ctx, pool, &r.PM.Spec, op.Branch, ex.Batch)
		return id, nil, err
	case "delete":
		id, err := c.API.Delete(ctx, pool, op.Branch, ex.IDs, commitMsg)
		return id, nil, err
	case "delete-where":
		id, err := c.API.DeleteWhere(ctx, pool, op.Branch, op.Pred, commitMsg)
		return id, nil, err
	case "compact":
		id, err := c.API.Compact(ctx, pool, op.Branch, ex.IDs, op.Vectors, commitMsg)
		return id, nil, err
	case "vector-add":
		id, err := c.API.AddVectors(ctx, r.PM.Spec.Name, op.Branch, ex.IDs, commitMsg)
		return id, nil, err
	case "vector-del":
		id, err := c.API.DeleteVectors(ctx, r.PM.Spec.Name, op.Branch, ex.IDs, commitMsg)
		return id, nil, err
	case "vacuum":
		ids, err := c.API.Vacuum(ctx, r.PM.Spec.Name, op.Branch, false)
		return ksuid.Nil, ids, err
	case "branch-create":
		return ksuid.Nil, nil, c.API.CreateBranch(ctx, pool, op.Other, ex.At)
	case "branch-drop":
		return ksuid.Nil, nil, c.API.RemoveBranch(ctx, pool, op.Branch)
	case "merge":
		id, err := c.API.MergeBranch(ctx, pool, op.Branch, op.Other, commitMsg)
		return id, nil, err
	case "revert":
		id, err := c.API.Revert(ctx, pool, op.Branch, ex.At, commitMsg)
		return id, nil, err
	}
	panic("unknown op " + op.Kind)
}

// TipOf reads the branch tip cold.
func (e *Env) TipOf(pm *PoolM, branch string) (ksuid.KSUID, error) {
	obs, err := e.W.Open(e.Ctx, "observer", false)
	if err != nil {
		return ksuid.Nil, err
	}
	return obs.API.CommitObject(e.Ctx, pm.ID, branch)
}

// observe reads the snapshot at commit cold, learns new objects and returns
// the object and vector sets.
func (r *SeqRun) observe(commit ksuid.KSUID, when string) (idset, idset, *kernel.Violation) {
	objs, vecs, obs, err := r.E.ObserveSnapshot(r.PM, commit)
	if err != nil {
		return nil, nil, kernel.Violatef(r.Sig+":unreadable", "%s: %v", when, err)
	}
	set := idset{}
	for _, o := range objs {
		if _, v := r.E.LearnObject(obs, r.PM, o, r.Sig); v != nil {
			v.Message = when + ": " + v.Message
			return nil, nil, v
		}
		set[o.ID] = true
		r.Added[o.ID] = true
	}
	return set, idset(vecs), nil
}

// Verify checks an acknowledged commit of op against the expectation and
// moves the model forward.
func (r *SeqRun) Verify(op *Op, ex *Expect, commit ksuid.KSUID, when string) *kernel.Violation {
	sig := r.Sig
	b := r.Br[ex.Target]
	prevObjs, prevVecs := b.Objs, b.Vecs
	tip, terr := r.E.TipOf(r.PM, b.Name)
	if terr != nil || tip != commit {
		return kernel.Violatef(sig+":ack-not-tip", "%s acknowledged commit %s but the tip of %q read cold is %s %v", when, commit, b.Name, tip, terr)
	}
	objs, vecs, v := r.observe(commit, when)
	if v != nil {
		return v
	}
	if ex.Objs != nil && !objs.equal(ex.Objs) {
		return kernel.Violatef(sig+":"+op.Kind+"-objects", "%s: object set after the operation differs from the model: got %d objects holding u=%v, want %d objects holding u=%v",
			when, len(objs), clipInts(r.usOf(objs), 30), len(ex.Objs), clipInts(r.usOf(ex.Objs), 30))
	}
	if ex.Content != nil {
		if ok, diff := sameMultiset(r.usOf(objs), ex.Content); !ok {
			return kernel.Violatef(sig+":content", "%s: pool %s branch %s commit %s: union of the snapshot's %d objects differs from the model: %s%s",
				when, r.PM.Spec.Name, b.Name, commit, len(objs), diff, r.E.describeDiff(r.usOf(objs), ex.Content))
		}
	}
	// Operation-specific object-level expectations.
	var removed, added []ksuid.KSUID
	for id := range prevObjs {
		if !objs[id] {
			removed = append(removed, id)
		}
	}
	for id := range objs {
		if !prevObjs[id] {
			added = append(added, id)
		}
	}
	chosen := idSet(ex.IDs)
	switch op.Kind {
	case "load":
		if len(removed) != 0 {
			return kernel.Violatef(sig+":load-removed-objects", "%s removed objects %v", when, removed)
		}
		if ok, diff := sameMultiset(r.usOfIDs(added), op.Us); !ok {
			return kernel.Violatef(sig+":load-objects", "%s: new objects do not hold exactly the loaded batch: %s", when, diff)
		}
		if len(added) > 1 {
			r.E.W.Out.Probe("multi-object-load")
		}
	case "delete-where":
		sel := map[int]bool{}
		for _, u := range r.usOf(prevObjs) {
			sel[u] = true
		}
		for _, u := range ex.Content {
			delete(sel, u)
		}
		for _, id := range removed {
			hit := false
			for _, u := range r.E.Objs[id].Us {
				hit = hit || sel[u]
			}
			if !hit {
				return kernel.Violatef(sig+":delete-where-objects", "%s rewrote object %s which holds no value selected by the predicate", when, id)
			}
		}
		if len(added) > 0 {
			r.E.W.Out.Probe("delete-where-rewrote-objects")
		}
	case "compact":
		for _, id := range removed {
			if !chosen[id] {
				return kernel.Violatef(sig+":compact-objects", "%s removed object %s which was not named", when, id)
			}
		}
		if len(removed) != len(chosen) {
			return kernel.Violatef(sig+":compact-objects", "%s: named %d objects, %d removed", when, len(chosen), len(removed))
		}
		if ok, diff := sameMultiset(r.usOfIDs(added), r.usOfIDs(removed)); !ok {
			return kernel.Violatef(sig+":compact-content", "%s: compacted objects hold different values than their sources: %s", when, diff)
		}
		if op.Vectors {
			for _, id := range added {
				if !vecs[id] {
					return kernel.Violatef(sig+":compact-vectors", "%s with vectors: new object %s has no vector copy", when, id)
				}
			}
		}
	case "vector-add", "vector-del":
		for id := range objs {
			want := prevVecs[id]
			if chosen[id] {
				want = op.Kind == "vector-add"
			}
			if vecs[id] != want {
				return kernel.Violatef(sig+":vector-state", "%s: object %s has-vector=%v, expected %v", when, id, vecs[id], want)
			}
			if vecs[id] && chosen[id] {
				// The vector copy the snapshot now promises can be read
				// and holds the object's values.
				if v := r.checkVectorCopy(id, sig, when); v != nil {
					return v
				}
			}
		}
	case "merge":
		r.E.W.Out.Probe("merge-succeeded")
	case "revert":
		r.E.W.Out.Probe("revert-succeeded")
	}
	if op.Kind == "load" || op.Kind == "delete" || op.Kind == "delete-where" {
		for id := range objs {
			if prevObjs[id] && vecs[id] != prevVecs[id] {
				return kernel.Violatef(sig+":vector-state", "%s changed the vector state of untouched object %s", when, id)
			}
		}
	}
	// Move the model.
	r.Parent[commit] = b.Tip
	b.Tip, b.Objs, b.Vecs = commit, objs, vecs
	r.CObjs[commit] = objs
	r.Acked = append(r.Acked, commit)
	// The state read by name and by id, cold and warm.
	if !r.NoClientScans {
		if v := r.E.CheckScan(r.C, r.PM, b.Name, r.usOf(objs), sig, when+" (issuing handle, by branch name)"); v != nil {
			return v
		}
	}
	obs, err := r.E.W.Open(r.E.Ctx, "observer", false)
	if err != nil {
		return kernel.Violatef(sig+":unreadable", "%s: %v", when, err)
	}
	return r.E.CheckScan(obs, r.PM, commit.String(), r.usOf(objs), sig, when+" (cold handle, by commit id)")
}

// CheckUntouched verifies that every branch other than skip still has its
// model tip and is readable with its model content.
func (r *SeqRun) CheckUntouched(skip, when string) *kernel.Violation {
	for _, name := range r.branchNames() {
		if name == skip {
			continue
		}
		b := r.Br[name]
		tip, err := r.E.TipOf(r.PM, name)
		if err != nil || tip != b.Tip {
			return kernel.Violatef(r.Sig+":other-branch-moved", "%s: branch %q tip is %s, model says %s (%v)", when, name, tip, b.Tip, err)
		}
		if r.anyVacuumed(b.Objs) {
			continue
		}
		if b.Tip == ksuid.Nil {
			continue
		}
		obs, err := r.E.W.Open(r.E.Ctx, "observer", false)
		if err != nil {
			return kernel.Violatef(r.Sig+":unreadable", "%s: %v", when, err)
		}
		if v := r.E.CheckScan(obs, r.PM, name, r.usOf(b.Objs), r.Sig+":other-branch", when+fmt.Sprintf(" (branch %q must be unaffected)", name)); v != nil {
			return v
		}
	}
	return nil
}

// VerifyFailed: an operation that reports failure leaves no visible trace.
func (r *SeqRun) VerifyFailed(op *Op, ex *Expect, err error, when string) *kernel.Violation {
	if v := r.CheckUntouched("", when+" (failed: "+err.Error()+")"); v != nil {
		v.Signature = r.Sig + ":failed-op-left-trace"
		return v
	}
	if op.Kind == "branch-create" {
		if _, terr := r.E.TipOf(r.PM, op.Other); terr == nil {
			return kernel.Violatef(r.Sig+":failed-op-left-trace", "%s failed (%v) but branch %q exists", when, err, op.Other)
		}
	}
	return nil
}

// VerifyNoCommit handles the operations that acknowledge without a commit.
func (r *SeqRun) VerifyNoCommit(op *Op, ex *Expect, vacuumed []ksuid.KSUID, when string) *kernel.Violation {
	switch op.Kind {
	case "vacuum":
		if v := r.checkVacuum(r.Br[op.Branch], vacuumed, when); v != nil {
			return v
		}
	case "branch-create":
		tip, err := r.E.TipOf(r.PM, op.Other)
		if err != nil || tip != ex.At {
			return kernel.Violatef(r.Sig+":branch-create", "%s: new branch %q has tip %s, expected %s (%v)", when, op.Other, tip, ex.At, err)
		}
		src := r.CObjs[ex.At]
		r.Br[op.Other] = &BranchS{Name: op.Other, Tip: ex.At, Objs: src.copy(), Vecs: idset{}}
		// Vector state of the new branch is whatever the commit had.
		if ex.At != ksuid.Nil {
			_, vecs, v := r.observe(ex.At, when)
			if v != nil {
				if r.anyVacuumed(src) {
					return nil
				}
				return v
			}
			r.Br[op.Other].Vecs = vecs
		}
		r.E.W.Out.Probe("branch-created")
	case "branch-drop":
		if _, err := r.E.TipOf(r.PM, op.Branch); err == nil {
			return kernel.Violatef(r.Sig+":branch-drop", "%s acknowledged but branch %q still exists", when, op.Branch)
		}
		delete(r.Br, op.Branch)
	}
	return r.CheckUntouched("", when)
}

// checkVacuum: vacuum at a branch tip removes exactly the objects added by
// commits on the tip's path that are absent from the tip's snapshot (and were
// not vacuumed before); everything in the snapshot stays on storage.
func (r *SeqRun) checkVacuum(b *BranchS, vacuumed []ksuid.KSUID, when string) *kernel.Violation {
	sig := r.Sig
	want := idset{}
	path := r.pathOf(b.Tip)
	for i, c := range path {
		if i == 0 {
			continue
		}
		prev := r.CObjs[r.Parent[c]]
		for id := range r.CObjs[c] {
			if !prev[id] && !b.Objs[id] && !r.Vacuumed[id] {
				want[id] = true
			}
		}
	}
	got := idSet(vacuumed)
	for id := range got {
		if b.Objs[id] {
			return kernel.Violatef(sig+":vacuum-live-object", "%s reported vacuuming object %s which is part of the tip snapshot", when, id)
		}
		if !want[id] {
			return kernel.Violatef(sig+":vacuum-unexpected", "%s reported vacuuming object %s which the model does not consider vacuumable", when, id)
		}
	}
	for id := range want {
		if !got[id] {
			return kernel.Violatef(sig+":vacuum-missed", "%s did not vacuum object %s (added on the branch's path, absent from the tip snapshot)", when, id)
		}
		r.Vacuumed[id] = true
	}
	if len(want) > 0 {
		r.E.W.Out.Probe("vacuum-removed-objects")
	}
	obs, err := r.E.W.Open(r.E.Ctx, "observer", false)
	if err != nil {
		return kernel.Violatef(sig+":unreadable", "%s: %v", when, err)
	}
	pool, err := obs.Root.OpenPool(r.E.Ctx, r.PM.ID)
	if err != nil {
		return kernel.Violatef(sig+":unreadable", "%s: %v", when, err)
	}
	for id := range b.Objs {
		if ok, _ := obs.H.Exists(r.E.Ctx, data.SequenceURI(pool.DataPath, id)); !ok {
			return kernel.Violatef(sig+":vacuum-live-object", "%s: object %s of the tip snapshot is gone from storage", when, id)
		}
	}
	for id := range r.Vacuumed {
		if ok, _ := obs.H.Exists(r.E.Ctx, data.SequenceURI(pool.DataPath, id)); ok {
			return kernel.Violatef(sig+":vacuum-missed", "%s: object %s reported vacuumed is still on storage", when, id)
		}
	}
	return nil
}

// RecheckOld (C13 a): every acknowledged commit whose objects have not been
// vacuumed must still yield exactly the content first recorded for it.
func (r *SeqRun) RecheckOld(when string) *kernel.Violation {
	tips := idset{}
	for _, b := range r.Br {
		tips[b.Tip] = true
	}
	for _, c := range r.Acked {
		if tips[c] || r.anyVacuumed(r.CObjs[c]) {
			continue
		}
		if v := r.E.CheckCommit(r.PM, c, r.usOf(r.CObjs[c]), r.Sig+":old-commit", fmt.Sprintf("%s, re-reading earlier commit %s", when, c)); v != nil {
			return v
		}
		r.E.W.Out.Probe("old-commit-requeried")
	}
	// One long-lived reader: a single fresh handle (a process with its own
	// caches, free to persist snapshot files like any client) reads every
	// commit, newest first on odd rounds and oldest first on even ones, so
	// that a commit is also read after its descendants and after its
	// ancestors have been resolved in the same process.
	h := r.E.W.Disk.NewHandle("reader", false)
	if r.E.W.Tape.Seed&2 != 0 {
		// In half of the runs no reader ever leaves snapshot files behind,
		// so that a reader starting at the tip has to fold the whole chain
		// of commits and meets the older ones afterwards in its own cache.
		h.ReadOnly = true
		r.E.W.Out.Probe("reader-persists-nothing")
	}
	rd, err := r.E.W.OpenOn(r.E.Ctx, h)
	if err != nil {
		return kernel.Violatef(r.Sig+":unreadable", "%s: a fresh reader cannot open the lake: %v", when, err)
	}
	order := append([]ksuid.KSUID(nil), r.Acked...)
	if len(r.Acked)%2 == 1 {
		for i, j := 0, len(order)-1; i < j; i, j = i+1, j-1 {
			order[i], order[j] = order[j], order[i]
		}
	}
	for _, c := range order {
		if r.anyVacuumed(r.CObjs[c]) {
			continue
		}
		if v := r.E.CheckScan(rd, r.PM, c.String(), r.usOf(r.CObjs[c]), r.Sig+":old-commit:warm-reader", fmt.Sprintf("%s, one reader process reading every commit in turn, now %s", when, c)); v != nil {
			return v
		}
		r.E.W.Out.Probe("old-commit-requeried-by-long-lived-reader")
	}
	return nil
}

func (r *SeqRun) touchesVacuumed(op *Op, ex *Expect) bool {
	if len(r.Vacuumed) == 0 || op.Kind == "branch-drop" {
		return false
	}
	if b, ok := r.Br[op.Branch]; ok && r.anyVacuumed(b.Objs) {
		return true
	}
	if b, ok := r.Br[op.Other]; ok && op.Kind == "merge" && r.anyVacuumed(b.Objs) {
		return true
	}
	if ex.Objs != nil && r.anyVacuumed(ex.Objs) {
		return true
	}
	switch op.Kind {
	case "branch-create":
		return r.anyVacuumed(r.CObjs[ex.At])
	case "revert":
		return r.anyVacuumed(r.CObjs[ex.At]) || r.anyVacuumed(r.CObjs[r.Parent[ex.At]])
	case "merge":
		base, _ := r.ancestor(r.Br[op.Other].Tip, r.Br[op.Branch].Tip)
		return r.anyVacuumed(r.CObjs[base])
	}
	return false
}

// Step generates, issues and verifies one operation.  It returns the op (with
// its result filled in) and a violation if any.
func (r *SeqRun) Step(s *kernel.Stream, i int, recheckOld bool) (Op, *kernel.Violation) {
	op := r.GenOp(s)
	return r.Do(s, op, i, recheckOld)
}

func (r *SeqRun) Do(s *kernel.Stream, op Op, i int, recheckOld bool) (Op, *kernel.Violation) {
	when := fmt.Sprintf("op %d (%s %s)", i+1, op.Kind, op.Branch)
	out := r.E.W.Out
	ex, err := r.Expectation(s, &op)
	if err != nil {
		op.Result = "skipped: " + err.Error()
		return op, nil
	}
	if r.touchesVacuumed(&op, ex) {
		// Once objects have been vacuumed, commits and branches that still
		// refer to them carry no obligations (C13, C14); do not operate on
		// them.
		op.Result = "skipped: refers to vacuumed objects"
		return op, nil
	}
	commit, vacuumed, err := r.Issue(r.C, &op, ex)
	out.Probe("op:" + op.Kind)
	if err != nil {
		op.Result = "error: " + err.Error()
		out.Probe("op-error:" + op.Kind)
		if !ex.MayFail && !ex.MustFail {
			return op, kernel.Violatef(r.Sig+":unexpected-error:"+op.Kind, "%s %+v on a fault-free, uncontended lake failed: %v", when, op, err)
		}
		return op, r.VerifyFailed(&op, ex, err, when)
	}
	if ex.MustFail {
		return op, kernel.Violatef(r.Sig+":unexpected-success:"+op.Kind, "%s %+v succeeded although the model says it cannot", when, op)
	}
	if ex.Target == "" {
		op.Result = fmt.Sprintf("ok %d", len(vacuumed))
		return op, r.VerifyNoCommit(&op, ex, vacuumed, when)
	}
	op.Result = commit.String()
	if v := r.Verify(&op, ex, commit, when); v != nil {
		return op, v
	}
	if len(r.Br) > 1 {
		if v := r.CheckUntouched(ex.Target, when); v != nil {
			return op, v
		}
	}
	if recheckOld {
		if v := r.RecheckOld(when); v != nil {
			return op, v
		}
	}
	return op, nil
}
