//go:debug randseednop=0
package lakesim

import (
	"testing"

	"verifsim/kernel"
)

var props = map[string]*kernel.Prop{
	"C08": {ID: "C08", Engine: "lakesim", RunOne: runC08},
	"C09": {ID: "C09", Engine: "lakesim", RunOne: runC09},
	"C16": {ID: "C16", Engine: "lakesim", RunOne: runC16},
	"C12": {ID: "C12", Engine: "lakesim", RunOne: runC12},
	"C13": {ID: "C13", Engine: "lakesim", RunOne: runC13a},
	"C14": {ID: "C14", Engine: "lakesim", RunOne: runC14},
	"C15": {ID: "C15", Engine: "lakesim", RunOne: runC15seq},
	"C17": {ID: "C17", Engine: "lakesim", RunOne: runC17, PinBase: []string{"faults"}, Expand: expandC17},
	"C19": {ID: "C19", Engine: "lakesim", RunOne: runC19},
}

func TestSim(t *testing.T) {
	kernel.WorkerMain(t, props)
}
