//go:debug randseednop=0
package lakesim

import (
	"testing"

	"verifsim/kernel"
)

var props = map[string]*kernel.Prop{
	"C14": {ID: "C14", Engine: "lakesim", RunOne: runC14},
}

func TestSim(t *testing.T) {
	kernel.WorkerMain(t, props)
}
