package lakesim

import (
	"fmt"
	"math"
	"sort"
	"strconv"
	"strings"

	"github.com/brimdata/super"
	"github.com/brimdata/super/zio"
	"github.com/brimdata/super/zson"
	"verifsim/kernel"
)

// Key kinds of a generated record.
const (
	KInt = iota
	KStr
	KFloat
	KNull
	KMissing
	KNonRecord // the value is not a record (pool key "this" only)
)

// Rec is the harness's own description of one loaded value.  U is unique over
// the whole run, so every value observed anywhere is attributable to one load.
type Rec struct {
	U    int     `json:"u"`
	Kind int     `json:"kind"`
	I    int64   `json:"i,omitempty"`
	S    string  `json:"s,omitempty"`
	F    float64 `json:"f,omitempty"`
	D    int64   `json:"d"` // secondary int field for non-key predicates
	Pad  int     `json:"pad,omitempty"`
	// Extra is the ZSON text of an additional field f ("" = absent).
	Extra string `json:"extra,omitempty"`
}

// PoolSpec is the harness's description of a pool.
type PoolSpec struct {
	Name      string `json:"name"`
	KeyPath   string `json:"key"` // "k", "n.k" or "this"
	Desc      bool   `json:"desc"`
	Thresh    int64  `json:"thresh"`
	Stride    int    `json:"stride"`
	MixedKeys bool   `json:"mixed_keys"` // several key types, nulls, missing
}

var keyStrs = []string{"", "a", "b", "ab", "z", "Z", "é", "10", "9"}

// GenRec draws one record for the pool.
func GenRec(s *kernel.Stream, spec *PoolSpec, u int, keyRange int) Rec {
	r := Rec{U: u, D: int64(s.Intn(7)) - 2}
	if s.Chance(1, 6) {
		r.Pad = s.Range(1, 120)
	}
	if !spec.MixedKeys {
		r.Kind = KInt
		r.I = int64(s.Intn(keyRange))
		return r
	}
	switch s.Pick(10, 3, 2, 2, 2) {
	case 0:
		r.Kind = KInt
		r.I = int64(s.Intn(keyRange)) - int64(keyRange/4)
	case 1:
		r.Kind = KStr
		r.S = keyStrs[s.Intn(len(keyStrs))]
	case 2:
		r.Kind = KFloat
		r.F = float64(s.Intn(2*keyRange)-keyRange/2) / 2
	case 3:
		r.Kind = KNull
	case 4:
		r.Kind = KMissing
	}
	return r
}

// ZSON renders the record for the pool's key path.
func (r Rec) ZSON(spec *PoolSpec) string {
	var key string
	switch r.Kind {
	case KInt:
		key = strconv.FormatInt(r.I, 10)
	case KStr:
		key = strconv.Quote(r.S)
	case KFloat:
		key = strconv.FormatFloat(r.F, 'f', -1, 64)
		if !strings.Contains(key, ".") {
			key += "."
		}
	case KNull:
		key = "null(int64)"
	}
	pad := ""
	if r.Pad > 0 {
		pad = fmt.Sprintf(",pad:%q", strings.Repeat("p", r.Pad))
	}
	rest := fmt.Sprintf("u:%d,d:%d%s", r.U, r.D, pad)
	if r.Extra != "" {
		rest += ",f:" + r.Extra
	}
	if r.Kind == KMissing {
		if spec.KeyPath == "n.k" {
			return "{n:{x:1}," + rest + "}"
		}
		return "{" + rest + "}"
	}
	switch spec.KeyPath {
	case "n.k":
		return fmt.Sprintf("{n:{k:%s},%s}", key, rest)
	default:
		return fmt.Sprintf("{k:%s,%s}", key, rest)
	}
}

type sliceReader struct {
	vals []zed.Value
	i    int
}

func (r *sliceReader) Read() (*zed.Value, error) {
	if r.i >= len(r.vals) {
		return nil, nil
	}
	v := &r.vals[r.i]
	r.i++
	return v, nil
}

// Reader renders recs as a zio.Reader in zctx.
func Reader(zctx *zed.Context, spec *PoolSpec, recs []Rec) (zio.Reader, error) {
	vals := make([]zed.Value, 0, len(recs))
	for _, r := range recs {
		v, err := zson.ParseValue(zctx, r.ZSON(spec))
		if err != nil {
			return nil, fmt.Errorf("harness: cannot parse %s: %w", r.ZSON(spec), err)
		}
		vals = append(vals, v)
	}
	return &sliceReader{vals: vals}, nil
}

// UOf extracts the unique id of a value read back from the lake (-1 if the
// value has none).
func UOf(v zed.Value) int {
	f := v.Deref("u")
	if f == nil || f.IsNull() || f.Type().ID() != zed.IDInt64 {
		return -1
	}
	return int(f.Int())
}

// Us maps values to their ids.
func Us(vals []zed.Value) []int {
	out := make([]int, len(vals))
	for i, v := range vals {
		out[i] = UOf(v)
	}
	return out
}

func sortedCopy(a []int) []int {
	b := append([]int(nil), a...)
	sort.Ints(b)
	return b
}

// sameMultiset compares two id lists as multisets and describes the difference.
func sameMultiset(got, want []int) (bool, string) {
	g, w := sortedCopy(got), sortedCopy(want)
	if len(g) == len(w) {
		eq := true
		for i := range g {
			if g[i] != w[i] {
				eq = false
				break
			}
		}
		if eq {
			return true, ""
		}
	}
	cnt := map[int]int{}
	for _, x := range w {
		cnt[x]++
	}
	for _, x := range g {
		cnt[x]--
	}
	var missing, extra []int
	for x, c := range cnt {
		for ; c > 0; c-- {
			missing = append(missing, x)
		}
		for ; c < 0; c++ {
			extra = append(extra, x)
		}
	}
	sort.Ints(missing)
	sort.Ints(extra)
	return false, fmt.Sprintf("missing u=%v, unexpected u=%v (got %d values, want %d)", clipInts(missing, 12), clipInts(extra, 12), len(g), len(w))
}

func clipInts(a []int, n int) []int {
	if len(a) > n {
		return a[:n]
	}
	return a
}

// keyLess orders two records of the same key kind; ok is false when the
// harness does not define the order (different kinds).
func keyCmp(a, b Rec) (c int, ok bool) {
	if a.Kind != b.Kind {
		return 0, false
	}
	switch a.Kind {
	case KInt:
		switch {
		case a.I < b.I:
			return -1, true
		case a.I > b.I:
			return 1, true
		}
		return 0, true
	case KStr:
		return strings.Compare(a.S, b.S), true
	case KFloat:
		if math.IsNaN(a.F) || math.IsNaN(b.F) {
			return 0, false
		}
		switch {
		case a.F < b.F:
			return -1, true
		case a.F > b.F:
			return 1, true
		}
		return 0, true
	case KNull, KMissing:
		return 0, true
	}
	return 0, false
}
