package streamsim

import (
	"bytes"
	"context"
	"fmt"
	"io"

	"github.com/brimdata/super"
	"github.com/brimdata/super/zbuf"
	"github.com/brimdata/super/zio"
	"github.com/brimdata/super/zio/zngio"
	"github.com/brimdata/super/zson"
	"verifsim/gen"
	"verifsim/kernel"
)

var errEOF = io.EOF

// C01: ZNG round trip.  One or more independently written streams (own
// writers, own type contexts, own options, end-of-stream markers at drawn
// positions) are concatenated and read back through a fragmenting reader with
// drawn reader options; with more than one decode thread the parser and the
// workers are scheduled by the simulator.

type c01Stream struct {
	Compress bool `json:"compress"`
	Thresh   int  `json:"frame_thresh"`
	Values   int  `json:"values"`
	EOSEvery int  `json:"eos_every,omitempty"`
}

type c01Desc struct {
	Streams  []c01Stream `json:"streams"`
	Threads  int         `json:"threads"`
	ReadSize int         `json:"readsize"`
	ReadMax  int         `json:"readmax"`
	Validate bool        `json:"validate"`
	Frag     int         `json:"max_fragment"`
	API      string      `json:"api"`
	Bytes    int         `json:"bytes"`
	Policy   string      `json:"sched_policy,omitempty"`
}

type wantVal struct {
	sig   string
	bytes []byte
	null  bool
	text  string
}

type nopCloser struct{ io.Writer }

func (nopCloser) Close() error { return nil }

// c01Encode writes the generated streams and returns the bytes and the
// expected values.
func c01Encode(kn, wl *kernel.Stream, desc *c01Desc, opts gen.Opts) ([]byte, []wantVal, []zed.Value) {
	var buf bytes.Buffer
	var want []wantVal
	var vals []zed.Value
	nstreams := kn.Pick(6, 3, 2, 1) + 1
	for si := 0; si < nstreams; si++ {
		st := c01Stream{Compress: kn.Chance(1, 2), Thresh: []int{zngio.DefaultFrameThresh, 1, 7, 40, 300, 4000, 1 << 20}[kn.Intn(7)], Values: kn.Range(0, 40)}
		if kn.Chance(1, 8) {
			st.Values = kn.Range(40, 200)
		}
		if kn.Chance(1, 3) {
			st.EOSEvery = kn.Range(1, 15)
		}
		desc.Streams = append(desc.Streams, st)
		// Values handed to one writer may come from several type contexts
		// (their type ids collide; the writer must tell them apart).
		gens := []*gen.G{gen.New(wl, zed.NewContext(), opts)}
		if kn.Chance(1, 2) {
			for k, n := 0, kn.Range(1, 2); k < n; k++ {
				gens = append(gens, gen.New(wl, zed.NewContext(), opts))
			}
		}
		w := zngio.NewWriterWithOpts(nopCloser{&buf}, zngio.WriterOpts{Compress: st.Compress, FrameThresh: st.Thresh})
		for i := 0; i < st.Values; i++ {
			var t zed.Type
			g := gens[0]
			if len(gens) > 1 {
				g = gens[wl.Intn(len(gens))]
			}
			if wl.Chance(1, 2) {
				t = g.Record(opts.MaxDepth)
			} else {
				t = g.Type(opts.MaxDepth)
			}
			v := g.Value(t)
			if err := w.Write(v); err != nil {
				panic(fmt.Sprintf("harness: zng writer rejected a generated value: %v", err))
			}
			want = append(want, wantVal{sig: gen.Signature(v.Type()), bytes: append([]byte(nil), v.Bytes()...), null: v.IsNull(), text: zson.FormatValue(v)})
			vals = append(vals, v.Copy())
			if st.EOSEvery > 0 && (i+1)%st.EOSEvery == 0 {
				if err := w.EndStream(); err != nil {
					panic(err)
				}
			}
		}
		if err := w.Close(); err != nil {
			panic(err)
		}
	}
	return buf.Bytes(), want, vals
}

func runC01(tape *kernel.Tape) *kernel.Outcome {
	kn, wl := tape.Stream("knobs"), tape.Stream("workload")
	out := &kernel.Outcome{}
	desc := &c01Desc{}
	out.Desc = desc
	opts := gen.Opts{MaxDepth: kn.Range(1, 3), NullUnions: kn.Chance(1, 2)}
	data, want, _ := c01Encode(kn, wl, desc, opts)
	desc.Bytes = len(data)
	desc.Threads = []int{1, 2, 3, 4, 8, 16}[kn.Intn(6)]
	desc.ReadSize = []int{0, 1, 16, 100, 4096}[kn.Intn(5)]
	desc.ReadMax = []int{0, 1 << 20, 1 << 16}[kn.Intn(3)]
	desc.Validate = kn.Chance(1, 2)
	desc.Frag = []int{0, 1, 3, 17, 200}[kn.Intn(5)]
	desc.API = []string{"read", "pull"}[kn.Intn(2)]
	ropts := zngio.ReaderOpts{Validate: desc.Validate, Size: desc.ReadSize, Max: desc.ReadMax, Threads: desc.Threads}
	if ropts.Max != 0 && ropts.Max < 1<<16 {
		ropts.Max = 1 << 16
	}
	var got []wantVal
	var readErr error
	res := inBubble(tape, func(s *kernel.Sched) {
		desc.Policy = s.PolicyName()
		fr := &fragReader{data: data, s: tape.Stream("frag"), max: desc.Frag, errAt: -1}
		zctx := zed.NewContext()
		r := zngio.NewReaderWithOpts(zctx, fr, ropts)
		defer r.Close()
		add := func(v zed.Value) {
			got = append(got, wantVal{sig: gen.Signature(v.Type()), bytes: append([]byte(nil), v.Bytes()...), null: v.IsNull(), text: zson.FormatValue(v)})
		}
		if desc.API == "read" {
			for {
				v, err := r.Read()
				if err != nil {
					readErr = err
					return
				}
				if v == nil {
					return
				}
				add(*v)
			}
		}
		sc, err := r.NewScanner(context.Background(), nil)
		if err != nil {
			readErr = err
			return
		}
		defer sc.Pull(true)
		for {
			b, err := sc.Pull(false)
			if err != nil {
				if _, ok := err.(*zbuf.Control); ok {
					continue
				}
				readErr = err
				return
			}
			if b == nil {
				// End of one stream; the scanner signals EOS per stream and
				// nil again at the real end.
				b2, err := sc.Pull(false)
				if err != nil {
					readErr = err
					return
				}
				if b2 == nil {
					return
				}
				b = b2
			}
			for _, v := range b.Values() {
				add(v)
			}
			b.Unref()
		}
	})
	out.Steps, out.SimNanos, out.TraceHash = res.Steps, res.SimNanos, res.Hash
	out.Bucket = fmt.Sprintf("threads=%d", desc.Threads)
	for k, v := range res.Hooks {
		out.ProbeN("hook:"+k, v)
	}
	if res.Sched != nil && res.Sched.Preemptions > 0 {
		out.ProbeN("preemptions", res.Sched.Preemptions)
	}
	out.Nontrivial = len(want) > 0 && (len(desc.Streams) > 1 || desc.Threads > 1 || desc.Frag > 0)
	sig := "C01"
	switch {
	case res.Panic != "":
		out.Violation = &kernel.Violation{Signature: sig + ":panic:" + kernel.PanicSite(res.Panic), Message: "panic while reading back: " + res.Panic}
	case res.Deadlock != "":
		out.Violation = kernel.Violatef(sig+":deadlock", "reader blocked forever: %s", res.Deadlock)
	case readErr != nil:
		out.Violation = kernel.Violatef(sig+":read-error", "reading back %d bytes (%d values written) failed after %d values: %v", len(data), len(want), len(got), readErr)
	default:
		out.Violation = c01Compare(sig, want, got)
	}
	if out.Violation == nil && res.Leaked {
		out.Violation = kernel.Violatef(sig+":goroutine-leak", "goroutines of the reader were left blocked after Close/Pull(true) returned")
	}
	return out
}

func c01Compare(sig string, want, got []wantVal) *kernel.Violation {
	n := len(want)
	if len(got) < n {
		n = len(got)
	}
	for i := 0; i < n; i++ {
		w, g := want[i], got[i]
		if w.sig != g.sig {
			return kernel.Violatef(sig+":type-differs", "value %d: type read back differs\n wrote %s\n read  %s\n wrote value %s\n read value  %s", i, w.sig, g.sig, w.text, g.text)
		}
		if w.null != g.null || !bytes.Equal(w.bytes, g.bytes) {
			return kernel.Violatef(sig+":bytes-differ", "value %d (type %s): bytes read back differ\n wrote %x (%s)\n read  %x (%s)", i, w.sig, w.bytes, w.text, g.bytes, g.text)
		}
	}
	if len(got) != len(want) {
		return kernel.Violatef(sig+":count-differs", "%d values written, %d read back (first %d equal)", len(want), len(got), n)
	}
	return nil
}

var _ zio.Reader = (*zngio.Reader)(nil)
