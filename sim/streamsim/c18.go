package streamsim

import (
	"bytes"
	"context"
	"encoding/csv"
	"errors"
	"fmt"
	"io"
	"io/fs"
	"strings"

	"github.com/brimdata/super"
	"github.com/brimdata/super/lake/data"
	"github.com/brimdata/super/order"
	"github.com/brimdata/super/pkg/bufwriter"
	"github.com/brimdata/super/pkg/field"
	"github.com/brimdata/super/pkg/storage"
	"github.com/brimdata/super/zio/anyio"
	"github.com/brimdata/super/zio/csvio"
	"github.com/brimdata/super/zio/jsonio"
	"github.com/brimdata/super/zio/zngio"
	"github.com/brimdata/super/zio/zsonio"
	"github.com/brimdata/super/zson"
	"verifsim/gen"
	"verifsim/kernel"
)

// faultySinks is the simulator-owned output medium: a set of named sinks
// sharing one global write-call counter, so that "the k-th sink write" is well
// defined for writers with several sinks (the lake data-object writer).
type faultySinks struct {
	calls   int // write calls so far, over all sinks
	failAt  int // 1-based; 0 = never
	sticky  bool
	short   bool
	failed  int // failures injected
	files   map[string]*bytes.Buffer
	closed  map[string]int
	lastErr error
}

var errSink = errors.New("simulated sink write failure")

type sinkWriter struct {
	set  *faultySinks
	name string
}

func (s *faultySinks) open(name string) *sinkWriter {
	if s.files == nil {
		s.files = map[string]*bytes.Buffer{}
		s.closed = map[string]int{}
	}
	s.files[name] = &bytes.Buffer{}
	return &sinkWriter{s, name}
}

func (w *sinkWriter) Write(p []byte) (int, error) {
	s := w.set
	s.calls++
	if s.failAt > 0 && (s.calls == s.failAt || (s.sticky && s.calls > s.failAt)) {
		s.failed++
		n := 0
		if s.short && len(p) > 1 {
			n = len(p) / 2
			s.files[w.name].Write(p[:n])
		}
		return n, errSink
	}
	s.files[w.name].Write(p)
	return len(p), nil
}

func (w *sinkWriter) Close() error {
	w.set.closed[w.name]++
	return nil
}

// sinkEngine is a storage.Engine whose Put hands out faulty sinks.
type sinkEngine struct{ set *faultySinks }

func (e *sinkEngine) Get(_ context.Context, u *storage.URI) (storage.Reader, error) {
	b, ok := e.set.files[u.String()]
	if !ok {
		return nil, fs.ErrNotExist
	}
	return storage.NewBytesReader(b.Bytes()), nil
}
func (e *sinkEngine) Put(_ context.Context, u *storage.URI) (io.WriteCloser, error) {
	return e.set.open(u.String()), nil
}
func (e *sinkEngine) PutIfNotExists(context.Context, *storage.URI, []byte) error {
	return storage.ErrNotSupported
}
func (e *sinkEngine) Delete(_ context.Context, u *storage.URI) error {
	delete(e.set.files, u.String())
	return nil
}
func (e *sinkEngine) DeleteByPrefix(context.Context, *storage.URI) error { return nil }
func (e *sinkEngine) Exists(_ context.Context, u *storage.URI) (bool, error) {
	_, ok := e.set.files[u.String()]
	return ok, nil
}
func (e *sinkEngine) Size(_ context.Context, u *storage.URI) (int64, error) {
	b, ok := e.set.files[u.String()]
	if !ok {
		return 0, fs.ErrNotExist
	}
	return int64(b.Len()), nil
}
func (e *sinkEngine) List(context.Context, *storage.URI) ([]storage.Info, error) { return nil, nil }

var c18Formats = []string{"zng", "zson", "zjson", "json", "csv", "tsv", "zeek", "table", "text", "vng", "lake", "dataobject", "vectorobject"}

// flat formats need uniform records of primitives to accept their input.
var flatFormat = map[string]bool{"csv": true, "tsv": true, "zeek": true, "table": true, "text": true}

type c18Desc struct {
	Format   string `json:"format"`
	Buffered bool   `json:"bufwriter"`
	Values   int    `json:"values"`
	Opts     string `json:"opts"`
	Writes   int    `json:"sink_write_calls"`
	FailAt   int    `json:"fail_at"`
	Fault    string `json:"fault"`
	Bytes    int    `json:"sink_bytes"`
}

func runC18(tape *kernel.Tape) *kernel.Outcome {
	kn := tape.Stream("knobs")
	wl := tape.Stream("workload")
	fl := tape.Stream("faults")
	out := &kernel.Outcome{}

	format := c18Formats[kn.Intn(len(c18Formats))]
	buffered := kn.Chance(1, 2)
	nvals := kn.Range(1, 60)
	if kn.Chance(1, 6) {
		nvals = kn.Range(60, 400)
	}
	zngOpts := zngio.WriterOpts{Compress: kn.Chance(1, 2), FrameThresh: []int{zngio.DefaultFrameThresh, 1, 16, 100, 1000, 5000}[kn.Intn(6)]}
	pretty := []int{0, 2, 4}[kn.Intn(3)]
	stride := []int{0, 1, 8, 64, 4096}[kn.Intn(5)]
	desc := kn.Chance(1, 2)
	endStreamEvery := 0
	if format == "zng" && kn.Chance(1, 3) {
		endStreamEvery = kn.Range(1, 20)
	}

	// Values.
	zctx := zed.NewContext()
	g := gen.New(wl, zctx, gen.Opts{MaxDepth: 3})
	var vals []zed.Value
	if flatFormat[format] {
		g.O.FlatOnly = true
		// At least two columns: a one-column record holding "" renders
		// as an empty line, which no CSV reader counts as a record.
		n := wl.Range(2, 5)
		var fields []zed.Field
		names := []string{"a", "b", "c", "d", "e"}
		for i := 0; i < n; i++ {
			t := g.Prim()
			if t == zed.TypeType || t == zed.TypeNull {
				t = zed.TypeString
			}
			fields = append(fields, zed.NewField(names[i], t))
		}
		rts := []zed.Type{zctx.MustLookupTypeRecord(fields)}
		if format != "csv" && format != "tsv" && wl.Chance(1, 2) {
			// table, text and zeek accept a change of record type in
			// mid-stream (new header, intermediate flush).
			for j := wl.Range(1, 2); j > 0; j-- {
				var fs []zed.Field
				for i, n := 0, wl.Range(1, 5); i < n; i++ {
					t := g.Prim()
					if t == zed.TypeType || t == zed.TypeNull {
						t = zed.TypeString
					}
					fs = append(fs, zed.NewField(names[4-i], t))
				}
				rts = append(rts, zctx.MustLookupTypeRecord(fs))
			}
		}
		rt := rts[0]
		for i := 0; i < nvals; i++ {
			if len(rts) > 1 && wl.Chance(1, 5) {
				rt = rts[wl.Intn(len(rts))]
			}
			vals = append(vals, g.Value(rt))
		}
	} else if format == "dataobject" || format == "vectorobject" {
		g.O.NoTypeVals = true
		rt := zctx.MustLookupTypeRecord([]zed.Field{zed.NewField("k", zed.TypeInt64), zed.NewField("s", zed.TypeString), zed.NewField("v", g.Type(2))})
		rt2 := zctx.MustLookupTypeRecord([]zed.Field{zed.NewField("k", zed.TypeInt64), zed.NewField("t", g.Type(1))})
		for i := 0; i < nvals; i++ {
			t := rt
			if wl.Chance(1, 4) {
				t = rt2
			}
			var b zed.Value
			for {
				b = g.Value(t)
				if !b.IsNull() {
					break
				}
			}
			vals = append(vals, b)
		}
	} else {
		// The lake-listing writer unmarshals every value into Go types first;
		// keep to shapes that path accepts (see DESIGN section 8, by-catch).
		g.O.NoUnions = format == "lake"
		for i := 0; i < nvals; i++ {
			var t zed.Type
			if wl.Chance(2, 3) {
				t = g.Record(3)
			} else {
				t = g.Type(3)
			}
			vals = append(vals, g.Value(t))
		}
	}

	k := int(fl.Draw(1 << 20))
	mode := int(fl.Draw(4))
	set := &faultySinks{failAt: k, sticky: mode&1 == 1, short: mode&2 == 2}
	faultName := [...]string{"oneshot", "sticky", "short-oneshot", "short-sticky"}[mode]

	// Build the writer and push the values through it, collecting every error
	// the writer API returns.
	var errs []error
	note := func(err error) {
		if err != nil {
			errs = append(errs, err)
		}
	}
	optsDesc := ""
	var writerPanic any
	func() {
		defer func() { writerPanic = recover() }()
		switch format {
		case "dataobject":
			optsDesc = fmt.Sprintf("stride=%d desc=%v", stride, desc)
			eng := &sinkEngine{set}
			o := data.NewObject()
			sk := order.NewSortKey(order.Asc, field.Path{"k"})
			if desc {
				sk = order.NewSortKey(order.Desc, field.Path{"k"})
			}
			w, err := o.NewWriter(context.Background(), eng, storage.MustParseURI("mem://pool/data"), sk, stride)
			if err != nil {
				panic(kernel.Violatef("C18:harness", "NewWriter: %v", err).Message)
			}
			for _, v := range vals {
				if err := w.Write(v); err != nil {
					note(err)
					break
				}
			}
			if len(errs) > 0 {
				w.Abort()
			} else {
				note(w.Close(context.Background()))
			}
		case "vectorobject":
			eng := &sinkEngine{set}
			o := data.NewObject()
			w, err := o.NewVectorWriter(context.Background(), eng, storage.MustParseURI("mem://pool/data"))
			if err != nil {
				panic(kernel.Violatef("C18:harness", "NewVectorWriter: %v", err).Message)
			}
			for _, v := range vals {
				if err := w.Write(v); err != nil {
					note(err)
					break
				}
			}
			note(w.Close())
		default:
			var sink io.WriteCloser = set.open("out")
			if buffered {
				sink = bufwriter.New(sink)
			}
			opts := anyio.WriterOpts{Format: format, ZSON: zsonio.WriterOpts{Pretty: pretty}, JSON: jsonio.WriterOpts{Pretty: pretty}, CSV: csvio.WriterOpts{}}
			if format == "zng" {
				opts.ZNG = &zngOpts
				optsDesc = fmt.Sprintf("compress=%v thresh=%d eos_every=%d", zngOpts.Compress, zngOpts.FrameThresh, endStreamEvery)
			} else {
				optsDesc = fmt.Sprintf("pretty=%d", pretty)
			}
			w, err := anyio.NewWriter(sink, opts)
			if err != nil {
				panic(kernel.Violatef("C18:harness", "NewWriter(%s): %v", format, err).Message)
			}
			for i, v := range vals {
				if err := w.Write(v); err != nil {
					note(err)
					break
				}
				if endStreamEvery > 0 && (i+1)%endStreamEvery == 0 {
					if err := w.(*zngio.Writer).EndStream(); err != nil {
						note(err)
						break
					}
				}
			}
			note(w.Close())
		}
	}()

	total := 0
	for _, b := range set.files {
		total += b.Len()
	}
	out.Bucket = format
	out.Meta = map[string]int{"sink_writes": set.calls}
	out.Desc = c18Desc{Format: format, Buffered: buffered, Values: len(vals), Opts: optsDesc, Writes: set.calls, FailAt: k, Fault: faultName, Bytes: total}
	sigBase := "C18:" + format
	if buffered && format != "dataobject" && format != "vectorobject" {
		sigBase += "+bufwriter"
	}

	if writerPanic != nil {
		if k == 0 {
			// A writer that panics on its input without any sink fault is a
			// defect, but not one this property speaks about; counted.
			out.Bucket = format + ":input-panics"
			out.Meta = nil
			return out
		}
		out.Violation = kernel.Violatef(sigBase+":"+faultName+":panic", "writer panicked after sink write %d failed: %v", k, writerPanic)
		return out
	}
	if k == 0 {
		// Fault-free configuration: no error, and the bytes are a complete,
		// readable stream holding what was written.
		if len(errs) > 0 {
			// The writer refused its input by its own rules; that is not a
			// sink failure.  Counted, never expanded.
			out.Bucket = format + ":input-rejected"
			out.Meta = nil
			return out
		}
		out.Nontrivial = set.calls > 1
		v, how := c18ReadBack(format, set, vals, sigBase, pretty)
		out.Violation = v
		if how != "" {
			out.Probe("readback-" + how)
		}
		return out
	}
	if set.failed == 0 {
		// The fault position lies beyond the writes this run made.
		out.Bucket = format + ":fault-not-reached"
		return out
	}
	out.Fault(faultName)
	out.Nontrivial = true
	if len(errs) == 0 {
		out.Violation = kernel.Violatef(sigBase+":"+faultName+":no-error",
			"format %s (%s, bufwriter=%v): sink write call %d of %d failed (%s, %d injected failures) but every Write/EndStream/Close returned nil; %d values, %d bytes reached the sink",
			format, optsDesc, buffered, k, set.calls, faultName, set.failed, len(vals), total)
	} else {
		out.Probe("error-reported")
	}
	return out
}

// c18ReadBack checks the fault-free output: every sink closed, and the bytes
// hold all the values.  Only the binary row format is compared value by value
// (that is where lake data objects live); for the other formats completeness
// is a count, taken with a counter that does not depend on the repository's
// own text parsers being loss-free (that is C02/C03 territory, not claimed
// here): lines for the line-oriented formats, encoding/csv records for
// csv/tsv, the repository's reader for vng.
func c18ReadBack(format string, set *faultySinks, vals []zed.Value, sigBase string, pretty int) (*kernel.Violation, string) {
	for name, n := range set.closed {
		if n == 0 {
			return kernel.Violatef(sigBase+":sink-not-closed", "sink %s was never closed", name), ""
		}
	}
	if len(set.closed) != len(set.files) {
		return kernel.Violatef(sigBase+":sink-not-closed", "%d sinks opened, %d closed", len(set.files), len(set.closed)), ""
	}
	var b []byte
	switch format {
	case "dataobject", "vectorobject":
		for name, f := range set.files {
			if strings.HasSuffix(name, "-seek.zng") {
				continue
			}
			b = f.Bytes()
		}
		if format == "dataobject" {
			format = "zng"
		} else {
			format = "vng"
		}
	default:
		b = set.files["out"].Bytes()
	}
	count := -1
	switch format {
	case "zng":
		zr := zngio.NewReader(zed.NewContext(), bytes.NewReader(b))
		defer zr.Close()
		for i, want := range vals {
			got, err := zr.Read()
			if err != nil {
				return kernel.Violatef(sigBase+":unreadable", "reading value %d of %d back: %v", i, len(vals), err), ""
			}
			if got == nil {
				return kernel.Violatef(sigBase+":incomplete", "fault-free output holds %d values, %d were written", i, len(vals)), ""
			}
			if gen.Signature(got.Type()) != gen.Signature(want.Type()) || !bytes.Equal(got.Bytes(), want.Bytes()) {
				return kernel.Violatef(sigBase+":readback-differs", "value %d read back differs: type %s vs %s\n got  %s\n want %s\n got  %x\n want %x", i, gen.Signature(got.Type()), gen.Signature(want.Type()), zson.FormatValue(*got), zson.FormatValue(want), got.Bytes(), want.Bytes()), ""
			}
		}
		if got, err := zr.Read(); err != nil || got != nil {
			return kernel.Violatef(sigBase+":trailing", "fault-free output has trailing data or error after %d values: %v", len(vals), err), ""
		}
		return nil, "exact"
	case "vng":
		zr, err := anyio.NewReaderWithOpts(zed.NewContext(), bytes.NewReader(b), nil, anyio.ReaderOpts{Format: "vng"})
		if err != nil {
			return nil, "reader-error"
		}
		defer zr.Close()
		count = 0
		for {
			v, err := zr.Read()
			if err != nil {
				return nil, "reader-error"
			}
			if v == nil {
				break
			}
			count++
		}
	case "csv", "tsv":
		cr := csv.NewReader(bytes.NewReader(b))
		cr.FieldsPerRecord = -1
		cr.LazyQuotes = true
		if format == "tsv" {
			cr.Comma = '\t'
		}
		recs, err := cr.ReadAll()
		if err != nil {
			return nil, "reader-error"
		}
		count = len(recs) - 1
	case "zeek":
		// One newline-terminated line per value, plus "#" header lines.
		count = 0
		lines := strings.Split(string(b), "\n")
		for _, l := range lines[:len(lines)-1] {
			if !strings.HasPrefix(l, "#") {
				count++
			}
		}
	case "zson", "json":
		if pretty != 0 {
			return nil, "no-counter"
		}
		count = bytes.Count(b, []byte("\n"))
	case "zjson", "text":
		count = bytes.Count(b, []byte("\n"))
	default:
		return nil, "no-counter"
	}
	if format == "text" && count > len(vals) {
		count = len(vals) // embedded newlines are not escaped by this format
	}
	if count != len(vals) {
		return kernel.Violatef(sigBase+":incomplete", "fault-free %s output holds %d values, %d were written (%d bytes): %q", format, count, len(vals), len(b), clip(b, 300)), ""
	}
	return nil, "count"
}

// expandC18 enumerates the fault positions along the base run's sink trace.
func expandC18(tier string, base *kernel.Outcome, rec map[string][]uint64, x *kernel.Stream) []map[string][]uint64 {
	w := base.Meta["sink_writes"]
	if w == 0 {
		return nil
	}
	var ks []int
	limit := 16
	if tier == "thorough" {
		limit = 400
	}
	if w <= limit {
		for k := 1; k <= w; k++ {
			ks = append(ks, k)
		}
	} else {
		seen := map[int]bool{1: true, w: true}
		ks = append(ks, 1, w)
		for len(ks) < limit {
			k := 1 + x.Intn(w)
			if !seen[k] {
				seen[k] = true
				ks = append(ks, k)
			}
		}
	}
	var out []map[string][]uint64
	for _, k := range ks {
		for mode := 0; mode < 4; mode++ {
			c := map[string][]uint64{}
			for l, v := range rec {
				c[l] = v
			}
			c["faults"] = []uint64{uint64(k), uint64(mode)}
			out = append(out, c)
		}
	}
	return out
}

func clip(b []byte, n int) []byte {
	if len(b) > n {
		return b[:n]
	}
	return b
}
