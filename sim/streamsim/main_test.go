package streamsim

import (
	"testing"

	"verifsim/kernel"
)

var props = map[string]*kernel.Prop{
	"C01": {ID: "C01", Engine: "streamsim", RunOne: runC01},
	"C04": {ID: "C04", Engine: "streamsim", RunOne: runC04},
	"C11": {ID: "C11", Engine: "streamsim", RunOne: runC11},
	"C18": {ID: "C18", Engine: "streamsim", RunOne: runC18, PinBase: []string{"faults"}, Expand: expandC18},
}

func TestSim(t *testing.T) {
	kernel.WorkerMain(t, props)
}
