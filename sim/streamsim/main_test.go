package streamsim

import (
	"testing"

	"verifsim/kernel"
)

var props = map[string]*kernel.Prop{
	"C18": {ID: "C18", Engine: "streamsim", RunOne: runC18, PinBase: []string{"faults"}, Expand: expandC18},
}

func TestSim(t *testing.T) {
	kernel.WorkerMain(t, props)
}
