package streamsim

import (
	"bytes"
	"context"
	"fmt"
	"io"
	"os"
	"sort"
	"strings"

	"github.com/brimdata/super"
	"github.com/brimdata/super/compiler"
	"github.com/brimdata/super/runtime"
	"github.com/brimdata/super/zio"
	"github.com/brimdata/super/zio/anyio"
	"github.com/brimdata/super/zio/zngio"
	"github.com/brimdata/super/zson"
	"verifsim/gen"
	"verifsim/kernel"
)

// C04: a program's output does not depend on the physical encoding of its
// input.  The same generated values are rendered as ZSON, ZJSON, VNG and ZNG
// (drawn writer options) and pushed through runtime.CompileQuery; the
// reference is the ZSON-text run.  The ZNG input is read by the threaded
// scanner (filter pushed down, buffers recycled between frames) with its
// parser and workers scheduled by the simulator.

type c04Desc struct {
	Program string   `json:"program"`
	Ordered bool     `json:"ordered"`
	Values  int      `json:"values"`
	Formats []string `json:"formats_compared"`
	Skipped []string `json:"formats_skipped_lossy_round_trip,omitempty"`
	ZNG     string   `json:"zng_options"`
	Rows    int      `json:"reference_rows"`
	Policy  string   `json:"sched_policy,omitempty"`
}

var c04Names = []string{"a", "b", "c", "s", "n", "rec", "arr", "t"}
var c04Strs = []string{"", "foo", "bar", "foobar", "hello world", "a", "Foo", "fo", "x*y", "null", "1"}

// c04GenProgram draws a program over the generated field names.
func c04GenProgram(s *kernel.Stream) (string, bool) {
	lit := func() string {
		switch s.Intn(4) {
		case 0:
			return fmt.Sprint(s.Intn(5) - 1)
		case 1:
			return fmt.Sprintf("%q", c04Strs[s.Intn(len(c04Strs))])
		case 2:
			return "1.5"
		default:
			return "null"
		}
	}
	field := func() string {
		f := c04Names[s.Intn(len(c04Names))]
		if s.Chance(1, 4) {
			f += "." + c04Names[s.Intn(len(c04Names))]
		}
		return f
	}
	var pred func(d int) string
	pred = func(d int) string {
		if d > 0 && s.Chance(1, 3) {
			switch s.Intn(3) {
			case 0:
				return "(" + pred(d-1) + " and " + pred(d-1) + ")"
			case 1:
				return "(" + pred(d-1) + " or " + pred(d-1) + ")"
			default:
				return "not (" + pred(d-1) + ")"
			}
		}
		switch s.Pick(3, 2, 3, 2, 1, 2, 1) {
		case 0: // keyword search
			// (rec, arr, n, s are also field names: a keyword matches field
			// names, including those of records inside containers)
			return []string{"foo", "bar", "hello", "fo", "world", "1", "rec", "arr", "n", "s"}[s.Intn(10)]
		case 1: // glob
			return []string{"foo*", "*bar", "f*o", "*o*", "re*", "*rr"}[s.Intn(6)]
		case 2:
			return fmt.Sprintf("%s == %s", field(), lit())
		case 3:
			return fmt.Sprintf("%s in %s", lit(), field())
		case 4:
			return fmt.Sprintf("/%s/", []string{"fo+", "^bar", "o w", "[0-9]"}[s.Intn(4)])
		case 5:
			return fmt.Sprintf("%s in this", lit())
		default:
			return fmt.Sprintf("is(%s, <%s>)", field(), []string{"int64", "string", "{a:int64}", "[int64]"}[s.Intn(4)])
		}
	}
	fn := func() string {
		arg := "this"
		if s.Chance(1, 2) {
			arg = field()
		}
		switch s.Intn(7) {
		case 0:
			return "typeof(" + arg + ")"
		case 1:
			return "typeunder(" + arg + ")"
		case 2:
			return "nameof(" + arg + ")"
		case 3:
			return "fields(" + arg + ")"
		case 4:
			return "len(" + arg + ")"
		case 5:
			return "typeof(typeof(" + arg + "))"
		default:
			return "kind(" + arg + ")"
		}
	}
	switch s.Pick(5, 3, 3, 2, 2, 1) {
	case 0:
		return pred(2), true
	case 1:
		return pred(1) + " | yield " + fn(), true
	case 2:
		return "yield " + fn(), true
	case 3:
		return "count() by t:=" + fn() + " | sort this", false
	case 4:
		return pred(1) + " | count()", false
	default:
		return "cut " + field() + ", " + field(), true
	}
}

func encodeAs(format string, vals []zed.Value, zopts *zngio.WriterOpts, eosEvery int) ([]byte, error) {
	var buf bytes.Buffer
	opts := anyio.WriterOpts{Format: format}
	if format == "zng" {
		opts.ZNG = zopts
	}
	w, err := anyio.NewWriter(nopCloser{&buf}, opts)
	if err != nil {
		return nil, err
	}
	for i, v := range vals {
		if err := w.Write(v); err != nil {
			return nil, err
		}
		if zw, ok := w.(*zngio.Writer); ok && eosEvery > 0 && (i+1)%eosEvery == 0 {
			if err := zw.EndStream(); err != nil {
				return nil, err
			}
		}
	}
	if err := w.Close(); err != nil {
		return nil, err
	}
	return buf.Bytes(), nil
}

func openAs(zctx *zed.Context, format string, data []byte, ropts zngio.ReaderOpts, fr io.Reader) (zio.ReadCloser, error) {
	var r io.Reader = bytes.NewReader(data)
	if fr != nil {
		r = fr
	}
	if format == "vng" {
		r = bytes.NewReader(data) // needs io.ReaderAt
	}
	return anyio.NewReaderWithOpts(zctx, r, nil, anyio.ReaderOpts{Format: format, ZNG: ropts})
}

// readAll decodes data without any program (round-trip precondition).
func readAll(format string, data []byte) ([]string, error) {
	zr, err := openAs(zed.NewContext(), format, data, zngio.ReaderOpts{Threads: 1}, nil)
	if err != nil {
		return nil, err
	}
	defer zr.Close()
	var out []string
	for {
		v, err := zr.Read()
		if err != nil {
			return nil, err
		}
		if v == nil {
			return out, nil
		}
		out = append(out, renderExact(*v))
	}
}

func runProgram(ctx context.Context, program, format string, data []byte, ropts zngio.ReaderOpts, fr io.Reader) ([]string, error) {
	zctx := zed.NewContext()
	zr, err := openAs(zctx, format, data, ropts, fr)
	if err != nil {
		return nil, fmt.Errorf("open: %w", err)
	}
	defer zr.Close()
	comp := compiler.NewCompiler()
	seq, sset, err := comp.Parse(program)
	if err != nil {
		return nil, fmt.Errorf("parse: %w", err)
	}
	q, err := runtime.CompileQuery(ctx, zctx, comp, seq, sset, []zio.Reader{zr})
	if err != nil {
		return nil, fmt.Errorf("compile: %w", err)
	}
	defer q.Pull(true)
	var out []string
	for {
		b, err := q.Pull(false)
		if err != nil {
			return out, err
		}
		if b == nil {
			return out, nil
		}
		for _, v := range b.Values() {
			out = append(out, zson.FormatValue(v))
		}
		b.Unref()
	}
}

// memReader hands out the generated values themselves: the reference run
// involves no encoding at all.
type memReader struct {
	vals []zed.Value
	i    int
}

func (m *memReader) Read() (*zed.Value, error) {
	if m.i >= len(m.vals) {
		return nil, nil
	}
	m.i++
	return &m.vals[m.i-1], nil
}

func runInMemory(ctx context.Context, program string, zctx *zed.Context, vals []zed.Value) ([]string, error) {
	comp := compiler.NewCompiler()
	seq, sset, err := comp.Parse(program)
	if err != nil {
		return nil, fmt.Errorf("parse: %w", err)
	}
	q, err := runtime.CompileQuery(ctx, zctx, comp, seq, sset, []zio.Reader{&memReader{vals: vals}})
	if err != nil {
		return nil, fmt.Errorf("compile: %w", err)
	}
	defer q.Pull(true)
	var out []string
	for {
		b, err := q.Pull(false)
		if err != nil {
			return out, err
		}
		if b == nil {
			return out, nil
		}
		for _, v := range b.Values() {
			out = append(out, zson.FormatValue(v))
		}
		b.Unref()
	}
}

func runC04(tape *kernel.Tape) *kernel.Outcome {
	kn, wl := tape.Stream("knobs"), tape.Stream("workload")
	out := &kernel.Outcome{}
	desc := &c04Desc{}
	out.Desc = desc
	// Values: records over a small field-name and string alphabet so that the
	// generated programs hit them; nested records inside arrays, maps and
	// unions, type values, named types.
	zctx := zed.NewContext()
	// The text formats must reproduce the values for the run to count, so
	// stay away from what the ZSON formatter is known not to round-trip
	// (exotic type names, enums, empty maps of complex types): C02's subject.
	g := gen.New(wl, zctx, gen.Opts{MaxDepth: 3, Names: c04Names, Strs: c04Strs, TypeNames: []string{"port", "mytype", "n"},
		NoEnums: true, NoMaps: kn.Chance(1, 2)})
	n := kn.Range(1, 60)
	var vals []zed.Value
	for i := 0; i < n; i++ {
		var t zed.Type
		if wl.Chance(4, 5) {
			t = g.Record(3)
		} else {
			t = g.Type(2)
		}
		vals = append(vals, g.Value(t))
	}
	desc.Values = n
	program, ordered := c04GenProgram(wl)
	desc.Program, desc.Ordered = program, ordered
	zopts := &zngio.WriterOpts{Compress: kn.Chance(1, 2), FrameThresh: []int{zngio.DefaultFrameThresh, 1, 20, 150, 2000}[kn.Intn(5)]}
	eos := 0
	if kn.Chance(1, 3) {
		eos = kn.Range(1, 12)
	}
	ropts := zngio.ReaderOpts{Threads: []int{2, 1, 3, 8}[kn.Intn(4)], Size: []int{0, 1, 64}[kn.Intn(3)], Validate: kn.Chance(1, 3)}
	frag := []int{0, 1, 9, 300}[kn.Intn(4)]
	desc.ZNG = fmt.Sprintf("compress=%v thresh=%d eos_every=%d threads=%d readsize=%d validate=%v fragment<=%d", zopts.Compress, zopts.FrameThresh, eos, ropts.Threads, ropts.Size, ropts.Validate, frag)

	// The original values as text, for the round-trip precondition.
	var orig []string
	for _, v := range vals {
		orig = append(orig, renderExact(v))
	}
	enc := map[string][]byte{}
	for _, f := range []string{"zson", "zjson", "vng", "zng"} {
		b, err := encodeAs(f, vals, zopts, eos)
		if err != nil {
			desc.Skipped = append(desc.Skipped, f+": "+err.Error())
			continue
		}
		back, err := readAll(f, b)
		if err != nil || strings.Join(back, "\n") != strings.Join(orig, "\n") {
			// The encoding does not reproduce these values: a matter of the
			// codec's own round trip (C01, C02, C03), not of this property.
			why := fmt.Sprint(err)
			if err != nil && f == "zson" {
				// Which value does the parser choke on?
				for _, v := range vals {
					text := zson.FormatValue(v)
					if _, perr := zson.ParseValue(zed.NewContext(), text); perr != nil {
						why += " on " + text
						break
					}
				}
			}
			if err == nil {
				for i := range orig {
					if i >= len(back) || back[i] != orig[i] {
						b := "(missing)"
						if i < len(back) {
							b = back[i]
						}
						why = fmt.Sprintf("value %d wrote %s read %s", i, orig[i], b)
						break
					}
				}
			}
			desc.Skipped = append(desc.Skipped, f+": round trip differs: "+clipStr(why, 300))
			out.Probe("lossy-round-trip:" + f)
			continue
		}
		enc[f] = b
	}
	ctx := context.Background()
	if dir := os.Getenv("VERIF_DUMP"); dir != "" {
		for f, b := range enc {
			os.WriteFile(dir+"/c04."+f, b, 0o644)
		}
	}
	ref, refErr := runInMemory(ctx, program, zctx, vals)
	desc.Rows = len(ref)
	norm := func(rows []string) string {
		if !ordered {
			rows = append([]string(nil), rows...)
			sort.Strings(rows)
		}
		return strings.Join(rows, "\n")
	}
	sig := "C04"
	for _, f := range []string{"zson", "zjson", "vng", "zng"} {
		data, ok := enc[f]
		if !ok {
			continue
		}
		desc.Formats = append(desc.Formats, f)
		var got []string
		var gotErr error
		if f == "zng" && ropts.Threads > 1 {
			res := inBubble(tape, func(s *kernel.Sched) {
				desc.Policy = s.PolicyName()
				var fr io.Reader
				if frag > 0 {
					fr = &fragReader{data: data, s: tape.Stream("frag"), max: frag, errAt: -1}
				}
				got, gotErr = runProgram(ctx, program, f, data, ropts, fr)
			})
			out.Steps += res.Steps
			out.SimNanos += res.SimNanos
			out.TraceHash = res.Hash
			for k, v := range res.Hooks {
				out.ProbeN("hook:"+k, v)
			}
			if res.Panic != "" {
				out.Violation = &kernel.Violation{Signature: sig + ":panic:" + kernel.PanicSite(res.Panic), Message: fmt.Sprintf("program %q on zng input panicked: %s", program, res.Panic)}
				return out
			}
			if res.Deadlock != "" {
				out.Violation = kernel.Violatef(sig+":deadlock", "program %q on zng input blocked forever: %s", program, res.Deadlock)
				return out
			}
		} else {
			var fr io.Reader
			if frag > 0 && f != "vng" {
				fr = &fragReader{data: data, s: tape.Stream("frag"), max: frag, errAt: -1}
			}
			got, gotErr = runProgram(ctx, program, f, data, ropts, fr)
		}
		if (refErr != nil) != (gotErr != nil) {
			out.Violation = kernel.Violatef(sig+":error-differs:"+f, "program %q: over the values themselves (no encoding) the error is %v, over %s input (%s) it is %v", program, refErr, f, desc.ZNG, gotErr)
			return out
		}
		if refErr != nil {
			// Both runs end in an error: how much was emitted before it
			// depends on batch boundaries, which legitimately differ between
			// encodings; only "error in both" is comparable.
			out.Probe("both-runs-error")
			continue
		}
		if norm(ref) != norm(got) {
			out.Violation = kernel.Violatef(sig+":output-differs:"+f, "program %q over %d values: output differs between the values themselves (no encoding) and %s input (%s)\n only without encoding: %s\n only with %s: %s",
				program, n, f, desc.ZNG, clipRows(onlyIn(ref, got), 8), f, clipRows(onlyIn(got, ref), 8))
			return out
		}
	}
	out.Bucket = "rows>0"
	if len(ref) == 0 {
		out.Bucket = "rows=0"
	}
	out.Nontrivial = len(desc.Formats) > 0 && len(ref) > 0
	return out
}

// renderExact identifies a value exactly: structural type, null-ness, bytes
// (the text form alone cannot tell a null union from a union holding null).
func renderExact(v zed.Value) string {
	return fmt.Sprintf("%s null=%v %x %s", gen.Signature(v.Type()), v.IsNull(), v.Bytes(), zson.FormatValue(v))
}

func onlyIn(a, b []string) []string {
	cnt := map[string]int{}
	for _, x := range b {
		cnt[x]++
	}
	var out []string
	for _, x := range a {
		if cnt[x] > 0 {
			cnt[x]--
			continue
		}
		out = append(out, x)
	}
	return out
}

func clipRows(a []string, n int) string {
	if len(a) == 0 {
		return "(nothing)"
	}
	if len(a) > n {
		return strings.Join(a[:n], " ") + fmt.Sprintf(" ... (%d rows)", len(a))
	}
	return strings.Join(a, " ")
}
