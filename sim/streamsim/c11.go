package streamsim

import (
	"bytes"
	"context"
	"errors"
	"fmt"
	"io"
	"runtime"

	"github.com/brimdata/super"
	"github.com/brimdata/super/zcode"
	"github.com/brimdata/super/zio/anyio"
	"github.com/brimdata/super/zio/zngio"
	"verifsim/gen"
	"verifsim/kernel"
)

// C11 (byte readers): valid encodings of generated values are damaged at
// PRNG-chosen places (truncation, bit flips, splices, inserted bytes) and/or
// delivered through a reader that fragments, fails or is cancelled at a chosen
// instant.  The reader must finish with values or an error: no panic, no
// goroutine left blocked, no allocation blow-up, and with validation on every
// value handed out must be structurally consistent with its type.

type c11Desc struct {
	Format   string `json:"source_format"`
	Explicit bool   `json:"format_given_to_reader"`
	Values   int    `json:"values"`
	Bytes    int    `json:"bytes"`
	Mutation string `json:"mutation"`
	ReadErr  int    `json:"read_error_at,omitempty"`
	CancelAt int    `json:"cancel_after_values,omitempty"`
	Threads  int    `json:"threads"`
	ReadMax  int    `json:"readmax"`
	Validate bool   `json:"validate"`
	Frag     int    `json:"max_fragment"`
	Got      int    `json:"values_read"`
	Err      string `json:"reader_error,omitempty"`
	AllocMB  int    `json:"alloc_mb"`
}

var c11Formats = []string{"zng", "zson", "zjson", "vng", "json", "csv", "tsv", "zeek"}

var errInjected = errors.New("simulated read error")

func runC11(tape *kernel.Tape) *kernel.Outcome {
	kn, wl, fl := tape.Stream("knobs"), tape.Stream("workload"), tape.Stream("faults")
	out := &kernel.Outcome{}
	desc := &c11Desc{}
	out.Desc = desc
	format := c11Formats[kn.Intn(len(c11Formats))]
	desc.Format = format
	zctx := zed.NewContext()
	opts := gen.Opts{MaxDepth: 2, TypeNames: []string{"port", "n"}, NoEnums: true}
	flat := flatFormat[format]
	g := gen.New(wl, zctx, opts)
	n := kn.Range(1, 40)
	var vals []zed.Value
	if flat || format == "json" {
		g.O.FlatOnly = true
		var fields []zed.Field
		for i, k := 0, wl.Range(2, 4); i < k; i++ {
			t := g.Prim()
			if t == zed.TypeType || t == zed.TypeNull {
				t = zed.TypeString
			}
			fields = append(fields, zed.NewField([]string{"a", "b", "c", "d"}[i], t))
		}
		rt := zctx.MustLookupTypeRecord(fields)
		for i := 0; i < n; i++ {
			vals = append(vals, g.Value(rt))
		}
	} else {
		for i := 0; i < n; i++ {
			var t zed.Type
			if wl.Chance(2, 3) {
				t = g.Record(2)
			} else {
				t = g.Type(2)
			}
			vals = append(vals, g.Value(t))
		}
	}
	desc.Values = n
	zopts := &zngio.WriterOpts{Compress: kn.Chance(1, 2), FrameThresh: []int{zngio.DefaultFrameThresh, 1, 30, 500}[kn.Intn(4)]}
	var data []byte
	func() {
		defer func() {
			if r := recover(); r != nil {
				data = nil
			}
		}()
		b, err := encodeAs(format, vals, zopts, kn.Intn(8))
		if err == nil {
			data = b
		}
	}()
	if len(data) == 0 {
		out.Bucket = format + ":not-encodable"
		return out
	}
	// ---- damage ----
	mut := fl.Pick(2, 4, 5, 2, 2)
	switch mut {
	case 0:
		desc.Mutation = "none"
	case 1:
		at := fl.Intn(len(data) + 1)
		data = append([]byte(nil), data[:at]...)
		desc.Mutation = fmt.Sprintf("truncate@%d", at)
		out.Fault("truncate")
	case 2:
		data = append([]byte(nil), data...)
		k := 1 + fl.Intn(4)
		desc.Mutation = "bitflip"
		for i := 0; i < k && len(data) > 0; i++ {
			// Biased to the head of the stream (frame headers, typedefs).
			pos := fl.Intn(len(data))
			if fl.Chance(1, 2) {
				pos = fl.Intn(min(len(data), 48))
			}
			bit := byte(1) << fl.Intn(8)
			data[pos] ^= bit
			desc.Mutation += fmt.Sprintf("@%d^%02x", pos, bit)
		}
		out.Fault("bitflip")
	case 3:
		a, b := fl.Intn(len(data)+1), fl.Intn(len(data)+1)
		if a > b {
			a, b = b, a
		}
		c := fl.Intn(len(data) + 1)
		spl := append(append(append([]byte(nil), data[:a]...), data[c:]...), data[b:]...)
		data = spl
		desc.Mutation = fmt.Sprintf("splice[:%d]+[%d:]+[%d:]", a, c, b)
		out.Fault("splice")
	case 4:
		at := fl.Intn(len(data) + 1)
		k := 1 + fl.Intn(6)
		ins := make([]byte, k)
		for i := range ins {
			ins[i] = []byte{0x00, 0xff, 0x80, 0x7f, '{', '"', ',', '\n', 0x40, 0x10}[fl.Intn(10)]
		}
		data = append(append(append([]byte(nil), data[:at]...), ins...), data[at:]...)
		desc.Mutation = fmt.Sprintf("insert@%d %x", at, ins)
		out.Fault("insert")
	}
	if len(data) > 1<<16 {
		data = data[:1<<16]
	}
	desc.Bytes = len(data)
	readErrAt := -1
	if fl.Chance(1, 5) {
		readErrAt = fl.Intn(len(data) + 1)
		desc.ReadErr = readErrAt
		out.Fault("read-error")
	}
	cancelAt := 0
	if fl.Chance(1, 6) {
		cancelAt = 1 + fl.Intn(n)
		desc.CancelAt = cancelAt
		out.Fault("cancel")
	}
	desc.Explicit = kn.Chance(2, 3)
	desc.Threads = []int{2, 1, 4}[kn.Intn(3)]
	desc.ReadMax = []int{1 << 20, 0, 1 << 16}[kn.Intn(3)]
	desc.Validate = kn.Chance(1, 2)
	desc.Frag = []int{0, 1, 7, 100}[kn.Intn(4)]
	ropts := anyio.ReaderOpts{ZNG: zngio.ReaderOpts{Threads: desc.Threads, Max: desc.ReadMax, Validate: desc.Validate}}
	if desc.Explicit {
		ropts.Format = format
		if format == "tsv" {
			ropts.Format = "csv"
			ropts.CSV.Delim = '\t'
		}
	}
	var readErr error
	var invalid *kernel.Violation
	var before, after runtime.MemStats
	runtime.ReadMemStats(&before)
	res := inBubble(tape, func(s *kernel.Sched) {
		_, cancel := context.WithCancel(context.Background())
		defer cancel()
		var src io.Reader
		if format == "vng" && desc.Explicit || (!desc.Explicit && desc.Frag == 0 && readErrAt < 0) {
			// VNG (and its auto-detection) needs a seekable source.
			src = bytes.NewReader(data)
		} else {
			fr := &fragReader{data: data, s: tape.Stream("frag"), max: desc.Frag, errAt: readErrAt}
			if readErrAt >= 0 {
				fr.err = errInjected
			}
			src = fr
		}
		zr, err := anyio.NewReaderWithOpts(zed.NewContext(), src, nil, ropts)
		if err != nil {
			readErr = err
			return
		}
		defer zr.Close()
		for desc.Got < 200000 {
			if cancelAt > 0 && desc.Got == cancelAt {
				cancel()
				// Cancellation reaches readers that were given a context
				// through Close; stop consuming like a cancelled query.
				return
			}
			v, err := zr.Read()
			if err != nil {
				readErr = err
				return
			}
			if v == nil {
				return
			}
			desc.Got++
			if desc.Validate && (format == "zng" || format == "vng") && invalid == nil {
				if werr := walkValue(v.Type(), v.Bytes()); werr != nil {
					invalid = kernel.Violatef("C11:invalid-value-handed-out:"+format, "with validation on, the %s reader handed out value #%d whose bytes are inconsistent with its type %s: %v (bytes %x)", format, desc.Got, gen.Signature(v.Type()), werr, clip(v.Bytes(), 64))
				}
			}
		}
	})
	runtime.ReadMemStats(&after)
	desc.AllocMB = int((after.TotalAlloc - before.TotalAlloc) >> 20)
	if readErr != nil {
		desc.Err = clipStr(readErr.Error(), 200)
		out.Probe("reader-returned-error")
	} else {
		out.Probe("reader-returned-values-only")
	}
	out.Steps, out.SimNanos, out.TraceHash = res.Steps, res.SimNanos, res.Hash
	out.Bucket = format
	if !desc.Explicit {
		out.Bucket += ":auto"
	}
	out.Nontrivial = mut != 0 || readErrAt >= 0 || cancelAt > 0
	sig := "C11"
	switch {
	case res.Panic != "":
		out.Violation = &kernel.Violation{Signature: sig + ":panic:" + kernel.PanicSite(res.Panic), Message: fmt.Sprintf("reading %d damaged %s bytes (%s) panicked: %s", len(data), format, desc.Mutation, res.Panic)}
	case res.Deadlock != "":
		out.Violation = kernel.Violatef(sig+":hang:"+format, "reading %d damaged %s bytes (%s): every goroutine blocked forever: %s", len(data), format, desc.Mutation, res.Deadlock)
	case invalid != nil:
		out.Violation = invalid
	case desc.Got >= 200000:
		out.Violation = kernel.Violatef(sig+":unbounded-output:"+format, "a %d-byte %s input produced more than 200000 values", len(data), format)
	// The reader's own limit on one frame is readmax: 64 KiB or 1 MiB when
	// drawn; the default (0) is zngio.MaxSize = 1 GiB, within which a damaged
	// length field may legitimately ask for a large buffer.
	// VNG has limits of its own (vng.MaxMetaSize 100 MiB, MaxDataSize 2 GiB);
	// readmax is an option of the ZNG reader only.
	case desc.AllocMB > 512 && ((desc.ReadMax != 0 && format != "vng") || desc.AllocMB > 3*1024):
		out.Violation = kernel.Violatef(sig+":allocation:"+format, "reading %d bytes of damaged %s (%s, readmax %d) allocated %d MiB", len(data), format, desc.Mutation, desc.ReadMax, desc.AllocMB)
	case res.Leaked:
		out.Violation = kernel.Violatef(sig+":goroutine-leak:"+format, "reading %d bytes of damaged %s (%s; error %v; cancel at %d): goroutines were left blocked after the reader was closed", len(data), format, desc.Mutation, readErr, cancelAt)
	}
	return out
}

// walkValue is the harness's own structural check of value bytes against a
// type: containers decode exactly, records have one element per field, union
// tags are in range, maps have an even number of elements.  Leaf values are
// not interpreted (the repository's validation does not promise that either).
func walkValue(typ zed.Type, b zcode.Bytes) (err error) {
	defer func() {
		if r := recover(); r != nil {
			err = fmt.Errorf("decoding ran past the value: %v", r)
		}
	}()
	return walk(typ, b, 0)
}

func walk(typ zed.Type, b zcode.Bytes, depth int) error {
	if b == nil {
		return nil
	}
	if depth > 64 {
		return errors.New("nesting too deep")
	}
	switch typ := typ.(type) {
	case *zed.TypeNamed:
		return walk(typ.Type, b, depth+1)
	case *zed.TypeError:
		return walk(typ.Type, b, depth+1)
	case *zed.TypeRecord:
		it := b.Iter()
		for i, f := range typ.Fields {
			if it.Done() {
				return fmt.Errorf("record has %d of %d fields", i, len(typ.Fields))
			}
			if err := walk(f.Type, it.Next(), depth+1); err != nil {
				return fmt.Errorf("field %q: %w", f.Name, err)
			}
		}
		if !it.Done() {
			return fmt.Errorf("record has more than %d fields", len(typ.Fields))
		}
	case *zed.TypeArray:
		for it := b.Iter(); !it.Done(); {
			if err := walk(typ.Type, it.Next(), depth+1); err != nil {
				return err
			}
		}
	case *zed.TypeSet:
		for it := b.Iter(); !it.Done(); {
			if err := walk(typ.Type, it.Next(), depth+1); err != nil {
				return err
			}
		}
	case *zed.TypeMap:
		n := 0
		for it := b.Iter(); !it.Done(); n++ {
			t := typ.KeyType
			if n%2 == 1 {
				t = typ.ValType
			}
			if err := walk(t, it.Next(), depth+1); err != nil {
				return err
			}
		}
		if n%2 != 0 {
			return errors.New("map with an odd number of elements")
		}
	case *zed.TypeUnion:
		it := b.Iter()
		if it.Done() {
			return errors.New("union without tag")
		}
		tag := zed.DecodeInt(it.Next())
		if tag < 0 || int(tag) >= len(typ.Types) {
			return fmt.Errorf("union tag %d out of range (%d members)", tag, len(typ.Types))
		}
		if it.Done() {
			return errors.New("union without value")
		}
		if err := walk(typ.Types[tag], it.Next(), depth+1); err != nil {
			return err
		}
		if !it.Done() {
			return errors.New("union with trailing elements")
		}
	}
	return nil
}
