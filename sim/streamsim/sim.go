package streamsim

import (
	"fmt"
	"runtime/debug"
	"strings"
	"sync"
	"testing"
	"testing/synctest"
	"time"

	"github.com/brimdata/super/pkg/simhook"
	"verifsim/kernel"
)

// inBubble runs body as the single task of a fresh synctest bubble with a
// seeded scheduler; goroutines of the system under test that reach a simhook
// point park there and are released one at a time.
//
// It returns the outcome pieces the scheduler knows and whether goroutines
// were left blocked when the body had returned (leak).
type simRun struct {
	Sched    *kernel.Sched
	Leaked   bool
	Deadlock string
	Panic    string
	Steps    int
	SimNanos int64
	Hash     uint64
	Hooks    map[string]int
}

var hookMu sync.Mutex

func inBubble(tape *kernel.Tape, body func(s *kernel.Sched)) (res simRun) {
	res.Hooks = map[string]int{}
	func() {
		defer func() {
			if r := recover(); r != nil {
				msg := fmt.Sprint(r)
				switch {
				case strings.Contains(msg, "blocked goroutines remain"):
					res.Leaked = true
				case strings.Contains(msg, "deadlock"):
					res.Deadlock = msg
				default:
					panic(r)
				}
			}
		}()
		synctest.Test(kernel.T, func(t *testing.T) {
			start := time.Now()
			s := kernel.NewSched(tape.Stream("schedule"), 200)
			res.Sched = s
			simhook.Handler = func(site string, key uint64) {
				if !strings.HasPrefix(site, "zngio.") {
					return
				}
				hookMu.Lock()
				res.Hooks[site]++
				hookMu.Unlock()
				s.Yield(fmt.Sprintf("%s#%d", site, key), site, key)
			}
			defer func() { simhook.Handler = nil }()
			s.Go(func() {
				defer func() {
					if r := recover(); r != nil {
						res.Panic = fmt.Sprintf("%v\n%s", r, debug.Stack())
					}
				}()
				body(s)
			})
			s.Run()
			res.Steps = s.Steps()
			res.SimNanos = int64(time.Since(start))
			res.Hash = s.TraceHash()
		})
	}()
	return res
}

// fragReader delivers its content in pieces whose sizes come from a choice
// stream, optionally failing or ending early.
type fragReader struct {
	data   []byte
	off    int
	s      *kernel.Stream
	max    int   // largest piece
	errAt  int   // fail the read that would cross this offset (-1 = never)
	err    error // error to return there
	reads  int
	closed bool
}

func (r *fragReader) Read(p []byte) (int, error) {
	r.reads++
	if r.off >= len(r.data) {
		if r.err != nil && r.errAt >= len(r.data) {
			return 0, r.err
		}
		return 0, errEOF
	}
	n := len(p)
	if r.max > 0 {
		k := 1 + r.s.Intn(r.max)
		if k < n {
			n = k
		}
	}
	if n > len(r.data)-r.off {
		n = len(r.data) - r.off
	}
	if r.err != nil && r.errAt >= 0 && r.off+n > r.errAt {
		n = r.errAt - r.off
		if n <= 0 {
			return 0, r.err
		}
	}
	copy(p, r.data[r.off:r.off+n])
	r.off += n
	return n, nil
}

func clipStr(s string, n int) string {
	if len(s) > n {
		return s[:n] + "..."
	}
	return s
}
