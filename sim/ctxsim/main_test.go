package ctxsim

import (
	"testing"

	"verifsim/kernel"
)

var props = map[string]*kernel.Prop{
	"C05": {ID: "C05", Engine: "ctxsim", RunOne: runC05},
}

func TestSim(t *testing.T) {
	kernel.WorkerMain(t, props)
}
