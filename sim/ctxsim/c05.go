// Package ctxsim simulates several goroutines sharing one zed.Context (C05).
package ctxsim

import (
	"bytes"
	"encoding/binary"
	"fmt"
	"runtime/debug"
	"sort"
	"strings"
	"testing"
	"testing/synctest"
	"time"

	"github.com/brimdata/super"
	"github.com/brimdata/super/pkg/simhook"
	"github.com/brimdata/super/zcode"
	"verifsim/kernel"
)

// TDesc is the harness's own description of a type, independent of any
// context: what an operation asks for.
type TDesc struct {
	Kind    string   // prim, record, array, set, map, union, enum, error, named
	Prim    int      // index into prims
	Name    string   // named
	Fields  []string // record field names
	Kids    []*TDesc // record field types / union members / [elem] / [key,val] / [inner]
	Symbols []string
}

var prims = []zed.Type{zed.TypeInt64, zed.TypeString, zed.TypeBool, zed.TypeFloat64, zed.TypeUint8, zed.TypeNull, zed.TypeIP, zed.TypeType}
var typeNames = []string{"foo", "bar", "port"}
var fieldNames = []string{"a", "b", "c", "x y"}

// sig is the structural identity of a description: union members form a set.
func (d *TDesc) sig() string {
	switch d.Kind {
	case "prim":
		return fmt.Sprintf("p%d", prims[d.Prim].ID())
	case "record":
		s := "R{"
		for i, f := range d.Fields {
			s += fmt.Sprintf("%q:%s,", f, d.Kids[i].sig())
		}
		return s + "}"
	case "array":
		return "A[" + d.Kids[0].sig() + "]"
	case "set":
		return "S[" + d.Kids[0].sig() + "]"
	case "map":
		return "M[" + d.Kids[0].sig() + ";" + d.Kids[1].sig() + "]"
	case "union":
		var ms []string
		seen := map[string]bool{}
		for _, k := range d.Kids {
			if s := k.sig(); !seen[s] {
				seen[s] = true
				ms = append(ms, s)
			}
		}
		sort.Strings(ms)
		return "U(" + strings.Join(ms, "|") + ")"
	case "enum":
		return fmt.Sprintf("E%q", d.Symbols)
	case "error":
		return "X(" + d.Kids[0].sig() + ")"
	case "named":
		return fmt.Sprintf("N%q=%s", d.Name, d.Kids[0].sig())
	}
	panic("bad desc")
}

// sigOf renders a repository type object in the same notation by the harness's
// own walk (no use of the repository's serialisation).
func sigOf(t zed.Type) string {
	switch t := t.(type) {
	case *zed.TypeRecord:
		s := "R{"
		for _, f := range t.Fields {
			s += fmt.Sprintf("%q:%s,", f.Name, sigOf(f.Type))
		}
		return s + "}"
	case *zed.TypeArray:
		return "A[" + sigOf(t.Type) + "]"
	case *zed.TypeSet:
		return "S[" + sigOf(t.Type) + "]"
	case *zed.TypeMap:
		return "M[" + sigOf(t.KeyType) + ";" + sigOf(t.ValType) + "]"
	case *zed.TypeUnion:
		var ms []string
		for _, m := range t.Types {
			ms = append(ms, sigOf(m))
		}
		sort.Strings(ms)
		return "U(" + strings.Join(ms, "|") + ")"
	case *zed.TypeEnum:
		return fmt.Sprintf("E%q", t.Symbols)
	case *zed.TypeError:
		return "X(" + sigOf(t.Type) + ")"
	case *zed.TypeNamed:
		return fmt.Sprintf("N%q=%s", t.Name, sigOf(t.Type))
	default:
		return fmt.Sprintf("p%d", t.ID())
	}
}

func genDesc(s *kernel.Stream, depth int) *TDesc {
	if depth <= 0 || s.Chance(1, 3) {
		return &TDesc{Kind: "prim", Prim: s.Intn(len(prims))}
	}
	switch s.Pick(4, 2, 1, 1, 3, 1, 1, 4) {
	case 0:
		n := s.Range(0, 3)
		d := &TDesc{Kind: "record"}
		seen := map[string]bool{}
		for i := 0; i < n; i++ {
			f := fieldNames[s.Intn(len(fieldNames))]
			if seen[f] {
				continue
			}
			seen[f] = true
			d.Fields = append(d.Fields, f)
			d.Kids = append(d.Kids, genDesc(s, depth-1))
		}
		return d
	case 1:
		return &TDesc{Kind: "array", Kids: []*TDesc{genDesc(s, depth-1)}}
	case 2:
		return &TDesc{Kind: "set", Kids: []*TDesc{genDesc(s, depth-1)}}
	case 3:
		return &TDesc{Kind: "map", Kids: []*TDesc{genDesc(s, depth-1), genDesc(s, depth-1)}}
	case 4:
		d := &TDesc{Kind: "union"}
		seen := map[string]bool{}
		for i, n := 0, s.Range(2, 4); i < n; i++ {
			k := genDesc(s, depth-1)
			if k.Kind == "union" || seen[k.sig()] {
				continue
			}
			seen[k.sig()] = true
			d.Kids = append(d.Kids, k)
		}
		if len(d.Kids) < 2 {
			return &TDesc{Kind: "prim", Prim: s.Intn(len(prims))}
		}
		return d
	case 5:
		return &TDesc{Kind: "enum", Symbols: [][]string{{"a"}, {"a", "b"}, {"b", "a"}}[s.Intn(3)]}
	case 6:
		return &TDesc{Kind: "error", Kids: []*TDesc{genDesc(s, depth-1)}}
	default:
		return &TDesc{Kind: "named", Name: typeNames[s.Intn(len(typeNames))], Kids: []*TDesc{genDesc(s, depth-1)}}
	}
}

// build creates the described type in zctx through the Lookup* calls, listing
// union members in a permutation drawn from perm (nil = as described).
func build(zctx *zed.Context, d *TDesc, perm *kernel.Stream) (zed.Type, error) {
	switch d.Kind {
	case "prim":
		return prims[d.Prim], nil
	case "record":
		var fields []zed.Field
		for i, f := range d.Fields {
			t, err := build(zctx, d.Kids[i], perm)
			if err != nil {
				return nil, err
			}
			fields = append(fields, zed.NewField(f, t))
		}
		return zctx.LookupTypeRecord(fields)
	case "array", "set", "error":
		t, err := build(zctx, d.Kids[0], perm)
		if err != nil {
			return nil, err
		}
		switch d.Kind {
		case "array":
			return zctx.LookupTypeArray(t), nil
		case "set":
			return zctx.LookupTypeSet(t), nil
		}
		return zctx.LookupTypeError(t), nil
	case "map":
		k, err := build(zctx, d.Kids[0], perm)
		if err != nil {
			return nil, err
		}
		v, err := build(zctx, d.Kids[1], perm)
		if err != nil {
			return nil, err
		}
		return zctx.LookupTypeMap(k, v), nil
	case "union":
		var ts []zed.Type
		for _, k := range d.Kids {
			t, err := build(zctx, k, perm)
			if err != nil {
				return nil, err
			}
			ts = append(ts, t)
		}
		if perm != nil {
			for i := len(ts) - 1; i > 0; i-- {
				j := perm.Intn(i + 1)
				ts[i], ts[j] = ts[j], ts[i]
			}
		}
		return zctx.LookupTypeUnion(ts), nil
	case "enum":
		return zctx.LookupTypeEnum(d.Symbols), nil
	case "named":
		t, err := build(zctx, d.Kids[0], perm)
		if err != nil {
			return nil, err
		}
		return zctx.LookupTypeNamed(d.Name, t)
	}
	panic("bad desc")
}

// encodeDesc is the harness's own type-value encoder (ZNG type value format):
// union members in a drawn order, named types always as full definitions.
func encodeDesc(b []byte, d *TDesc, perm *kernel.Stream) []byte {
	name := func(b []byte, s string) []byte {
		b = binary.AppendUvarint(b, uint64(len(s)))
		return append(b, s...)
	}
	switch d.Kind {
	case "prim":
		return append(b, byte(prims[d.Prim].ID()))
	case "record":
		b = append(b, zed.TypeValueRecord)
		b = binary.AppendUvarint(b, uint64(len(d.Fields)))
		for i, f := range d.Fields {
			b = name(b, f)
			b = encodeDesc(b, d.Kids[i], perm)
		}
		return b
	case "array":
		return encodeDesc(append(b, zed.TypeValueArray), d.Kids[0], perm)
	case "set":
		return encodeDesc(append(b, zed.TypeValueSet), d.Kids[0], perm)
	case "error":
		return encodeDesc(append(b, zed.TypeValueError), d.Kids[0], perm)
	case "map":
		b = encodeDesc(append(b, zed.TypeValueMap), d.Kids[0], perm)
		return encodeDesc(b, d.Kids[1], perm)
	case "union":
		kids := append([]*TDesc(nil), d.Kids...)
		for i := len(kids) - 1; i > 0; i-- {
			j := perm.Intn(i + 1)
			kids[i], kids[j] = kids[j], kids[i]
		}
		b = append(b, zed.TypeValueUnion)
		b = binary.AppendUvarint(b, uint64(len(kids)))
		for _, k := range kids {
			b = encodeDesc(b, k, perm)
		}
		return b
	case "enum":
		b = append(b, zed.TypeValueEnum)
		b = binary.AppendUvarint(b, uint64(len(d.Symbols)))
		for _, s := range d.Symbols {
			b = name(b, s)
		}
		return b
	case "named":
		b = name(append(b, zed.TypeValueNameDef), d.Name)
		return encodeDesc(b, d.Kids[0], perm)
	}
	panic("bad desc")
}

type c05Op struct {
	Task int    `json:"task"`
	Kind string `json:"op"`
	Sig  string `json:"type"`
	Note string `json:"note,omitempty"`
}

type c05Desc struct {
	Tasks  int     `json:"goroutines"`
	Ops    []c05Op `json:"ops"`
	Policy string  `json:"sched_policy"`
	Types  int     `json:"distinct_types_seen"`
}

type seen struct {
	ptr zed.Type
	id  int
	tv  []byte // first observed type value (copy)
}

func runC05(tape *kernel.Tape) *kernel.Outcome {
	out := &kernel.Outcome{}
	desc := &c05Desc{}
	out.Desc = desc
	var viol *kernel.Violation
	var panicMsg string
	hooks := map[string]int{}
	func() {
		defer func() {
			if r := recover(); r != nil {
				msg := fmt.Sprint(r)
				if strings.Contains(msg, "blocked goroutines remain") {
					return
				}
				if strings.Contains(msg, "deadlock") {
					viol = kernel.Violatef("C05:deadlock", "%s", msg)
					return
				}
				panic(r)
			}
		}()
		synctest.Test(kernel.T, func(t *testing.T) {
			start := time.Now()
			kn, wl := tape.Stream("knobs"), tape.Stream("workload")
			s := kernel.NewSched(tape.Stream("schedule"), 200)
			desc.Policy = s.PolicyName()
			simhook.Handler = func(site string, key uint64) {
				if !strings.HasPrefix(site, "zed.context.") {
					return
				}
				hooks[site]++
				s.Yield(s.Last(), site, key)
			}
			defer func() { simhook.Handler = nil }()
			shared := zed.NewContext()
			bySig := map[string]*seen{}
			byPtr := map[zed.Type]string{}
			fail := func(v *kernel.Violation) {
				if viol == nil {
					viol = v
				}
			}
			// observe records a type returned by the shared context and checks
			// canonicity and type-value stability.
			observe := func(task int, what string, want string, typ zed.Type) {
				got := sigOf(typ)
				if want != "" && got != want {
					fail(kernel.Violatef("C05:wrong-structure:"+what, "goroutine %d: %s asked for %s, the context returned %s", task, what, want, got))
					return
				}
				if prev, ok := byPtr[typ]; ok && prev != got {
					fail(kernel.Violatef("C05:type-object-changed", "goroutine %d: a type object first seen as %s now reads %s", task, prev, got))
					return
				}
				byPtr[typ] = got
				e, ok := bySig[got]
				if !ok {
					bySig[got] = &seen{ptr: typ, id: zed.TypeID(typ)}
					return
				}
				if e.ptr != typ {
					fail(kernel.Violatef("C05:not-canonical:"+what, "goroutine %d: %s returned a second type object (id %d) for structure %s; id %d was handed out earlier", task, what, zed.TypeID(typ), got, e.id))
				}
			}
			checkTV := func(task int, what string, typ zed.Type, tv zcode.Bytes) {
				e := bySig[sigOf(typ)]
				if e == nil {
					return
				}
				if e.tv == nil {
					e.tv = append([]byte{}, tv...)
					return
				}
				if !bytes.Equal(e.tv, tv) {
					fail(kernel.Violatef("C05:type-value-changed", "goroutine %d (%s): the type value of %s changed: first %x, now %x", task, what, sigOf(typ), e.tv, tv))
				}
			}
			ntasks := kn.Range(2, 5)
			desc.Tasks = ntasks
			// A small pool of descriptions so that the same structure is
			// requested along different routes.
			var pool []*TDesc
			for i, n := 0, kn.Range(2, 6); i < n; i++ {
				pool = append(pool, genDesc(wl, 3))
			}
			for ti := 0; ti < ntasks; ti++ {
				ti := ti
				nops := wl.Range(1, 6)
				type planned struct {
					kind string
					d    *TDesc
				}
				var plan []planned
				for j := 0; j < nops; j++ {
					kind := []string{"build", "by-value", "translate", "type-value", "decode-def-ref", "rebind", "by-foreign-encoding"}[wl.Pick(4, 4, 2, 2, 3, 2, 3)]
					d := pool[wl.Intn(len(pool))]
					if kind == "rebind" || wl.Chance(1, 4) {
						d = genDesc(wl, 2)
					}
					plan = append(plan, planned{kind, d})
				}
				perm := tape.Stream(fmt.Sprintf("perm%d", ti))
				s.Go(func() {
					defer func() {
						if r := recover(); r != nil {
							panicMsg = fmt.Sprintf("%v\n%s", r, debug.Stack())
						}
					}()
					task := fmt.Sprintf("g%d", ti)
					for j, p := range plan {
						s.Yield(task, "op", uint64(j))
						op := c05Op{Task: ti, Kind: p.kind, Sig: p.d.sig()}
						switch p.kind {
						case "build":
							typ, err := build(shared, p.d, perm)
							if err != nil {
								op.Note = err.Error()
								break
							}
							observe(ti, "lookup", p.d.sig(), typ)
						case "by-value", "translate", "type-value":
							foreign := zed.NewContext()
							ft, err := build(foreign, p.d, perm)
							if err != nil {
								op.Note = err.Error()
								break
							}
							switch p.kind {
							case "by-value":
								// The caller's slice is overwritten afterwards,
								// as a recycled frame buffer would be.
								tv := append([]byte{}, foreign.LookupTypeValue(ft).Bytes()...)
								typ, err := shared.LookupByValue(tv)
								if err != nil {
									fail(kernel.Violatef("C05:lookup-by-value-failed", "goroutine %d: LookupByValue of the type value of %s failed: %v", ti, p.d.sig(), err))
									break
								}
								for i := range tv {
									tv[i] = 0xee
								}
								observe(ti, "lookup-by-value", p.d.sig(), typ)
								checkTV(ti, "after lookup-by-value", typ, shared.LookupTypeValue(typ).Bytes())
							case "translate":
								typ, err := shared.TranslateType(ft)
								if err != nil {
									fail(kernel.Violatef("C05:translate-failed", "goroutine %d: TranslateType of %s failed: %v", ti, p.d.sig(), err))
									break
								}
								observe(ti, "translate", p.d.sig(), typ)
								back, err := zed.NewContext().TranslateType(typ)
								if err != nil || sigOf(back) != p.d.sig() {
									fail(kernel.Violatef("C05:translate-back", "goroutine %d: translating %s to another context and back gives %v (%v)", ti, p.d.sig(), back, err))
								}
							case "type-value":
								typ, err := shared.TranslateType(ft)
								if err != nil {
									break
								}
								observe(ti, "translate", p.d.sig(), typ)
								tv := shared.LookupTypeValue(typ).Bytes()
								checkTV(ti, "type-value", typ, tv)
								// Decoding the type value anywhere denotes the same structure.
								dt, rest := zed.NewContext().DecodeTypeValue(tv)
								if rest == nil || sigOf(dt) != p.d.sig() {
									fail(kernel.Violatef("C05:type-value-decodes-differently", "goroutine %d: the type value %x of %s decodes in a fresh context to %v", ti, tv, p.d.sig(), dt))
								}
							}
						case "by-foreign-encoding":
							// A type value written by another producer: the
							// harness's own encoder, union members in any order,
							// every named type spelled out in full.
							tv := encodeDesc(nil, p.d, perm)
							typ, err := shared.LookupByValue(tv)
							if err != nil {
								fail(kernel.Violatef("C05:lookup-by-value-failed", "goroutine %d: LookupByValue of a type value %x for %s failed: %v", ti, tv, p.d.sig(), err))
								break
							}
							observe(ti, "lookup-by-foreign-encoding", p.d.sig(), typ)
							checkTV(ti, "after lookup-by-foreign-encoding", typ, shared.LookupTypeValue(typ).Bytes())
						case "decode-def-ref":
							// A record type whose first field defines a name and
							// whose second refers to it: {a: N=T, b: N}.
							name := typeNames[perm.Intn(len(typeNames))]
							named := &TDesc{Kind: "named", Name: name, Kids: []*TDesc{p.d}}
							rec := &TDesc{Kind: "record", Fields: []string{"a", "b"}, Kids: []*TDesc{named, named}}
							op.Sig = rec.sig()
							foreign := zed.NewContext()
							ft, err := build(foreign, rec, perm)
							if err != nil {
								op.Note = err.Error()
								break
							}
							tv := zed.EncodeTypeValue(ft)
							typ, rest := shared.DecodeTypeValue(tv)
							if rest == nil {
								fail(kernel.Violatef("C05:decode-failed", "goroutine %d: DecodeTypeValue of %s failed", ti, rec.sig()))
								break
							}
							observe(ti, "decode-type-value", rec.sig(), typ)
						case "rebind":
							name := typeNames[perm.Intn(len(typeNames))]
							nd := &TDesc{Kind: "named", Name: name, Kids: []*TDesc{p.d}}
							op.Sig = nd.sig()
							typ, err := build(shared, nd, perm)
							if err != nil {
								op.Note = err.Error()
								break
							}
							observe(ti, "lookup-named", nd.sig(), typ)
						}
						desc.Ops = append(desc.Ops, op)
					}
				})
			}
			s.Run()
			simhook.Handler = nil // the final pass runs on the bubble's root
			// Final pass: every type seen still has the type value first
			// observed, and a context with a different history produces the
			// same bytes for the same structure.
			for sg, e := range bySig {
				tv := shared.LookupTypeValue(e.ptr).Bytes()
				if e.tv != nil && !bytes.Equal(tv, e.tv) {
					fail(kernel.Violatef("C05:type-value-changed", "at the end the type value of %s is %x, first observed %x", sg, tv, e.tv))
				}
				other, err := zed.NewContext().TranslateType(e.ptr)
				if err == nil {
					fresh := zed.NewContext()
					ft, err := fresh.TranslateType(other)
					if err == nil {
						if ftv := fresh.LookupTypeValue(ft).Bytes(); !bytes.Equal(ftv, tv) {
							fail(kernel.Violatef("C05:type-value-not-pure", "the type value of %s is %x in the shared context and %x in a fresh one", sg, tv, ftv))
						}
					}
				}
			}
			desc.Types = len(bySig)
			out.Steps = s.Steps()
			out.SimNanos = int64(time.Since(start))
			out.TraceHash = s.TraceHash()
			if s.Preemptions > 0 {
				out.ProbeN("preemptions", s.Preemptions)
			}
		})
	}()
	for k, v := range hooks {
		out.ProbeN("hook:"+k, v)
	}
	out.Nontrivial = len(desc.Ops) > 1
	if panicMsg != "" {
		out.Violation = &kernel.Violation{Signature: "C05:panic:" + kernel.PanicSite(panicMsg), Message: panicMsg}
		return out
	}
	out.Violation = viol
	return out
}
