// Package simdisk is the storage the simulated lake sees: one Disk shared by
// any number of client Handles (each a storage.Engine).  A handle parks at the
// seeded scheduler before every metadata operation, counts its mutating steps
// and can be made to fail-stop (crash) at a chosen step, optionally tearing
// the write call it dies in.
package simdisk

import (
	"bytes"
	"context"
	"errors"
	"fmt"
	"hash/fnv"
	"io"
	"io/fs"
	"sort"
	"strings"
	"sync"
	"syscall"

	"github.com/brimdata/super/pkg/storage"
	"verifsim/kernel"
)

type Mode int

const (
	// Atomic models an object store with conditional put: a Put becomes
	// visible at Close, PutIfNotExists is one atomic step.
	Atomic Mode = iota
	// FileLike models the local file engine: Put creates/truncates at once,
	// every Write call is visible as it happens, PutIfNotExists is
	// create(O_EXCL) then fill.
	FileLike
)

func (m Mode) String() string {
	if m == Atomic {
		return "objstore"
	}
	return "filelike"
}

var ErrCrashed = errors.New("simdisk: process has crashed")

type Disk struct {
	Mode  Mode
	Sched *kernel.Sched

	mu    sync.Mutex
	files map[string][]byte
	// Open (not yet closed) metadata puts, for "no metadata put is open"
	// instants.
	openMetaPuts int
	// Counters.
	Ops        map[string]int
	DataReads  map[string]int   // data-object path -> number of ReadAt/Read calls
	DataRanges map[string][]int // data-object path -> [off,len,...] of ReadAt calls
}

func NewDisk(mode Mode, sched *kernel.Sched) *Disk {
	return &Disk{Mode: mode, Sched: sched, files: map[string][]byte{}, Ops: map[string]int{},
		DataReads: map[string]int{}, DataRanges: map[string][]int{}}
}

// Image is a copy of everything durable.
type Image map[string][]byte

func (d *Disk) Snapshot() Image {
	d.mu.Lock()
	defer d.mu.Unlock()
	img := make(Image, len(d.files))
	for k, v := range d.files {
		img[k] = append([]byte(nil), v...)
	}
	return img
}

func (d *Disk) Restore(img Image) {
	d.mu.Lock()
	defer d.mu.Unlock()
	d.files = make(map[string][]byte, len(img))
	for k, v := range img {
		d.files[k] = append([]byte(nil), v...)
	}
	d.openMetaPuts = 0
}

// Paths lists all paths (sorted).
func (d *Disk) Paths() []string {
	d.mu.Lock()
	defer d.mu.Unlock()
	var out []string
	for k := range d.files {
		out = append(out, k)
	}
	sort.Strings(out)
	return out
}

func (d *Disk) MetaPutOpen() bool {
	d.mu.Lock()
	defer d.mu.Unlock()
	return d.openMetaPuts > 0
}

func (d *Disk) count(op string) {
	d.Ops[op]++
}

// Handle is one client's (one process's) view of the disk.
type Handle struct {
	d      *Disk
	Client string
	// Yield makes the handle park at the scheduler before metadata ops.
	Yield bool

	mu      sync.Mutex
	dead    bool
	steps   int // mutating steps performed or attempted
	CrashAt int // die at this mutating step (1-based); 0 = never
	// Tear: when the fatal step is a Write call, keep this many 1/8ths of it.
	Tear      int
	CrashedAt string // description of the step the handle died at
	StepLog   []string
	KeepLog   bool
}

func (d *Disk) NewHandle(client string, yield bool) *Handle {
	return &Handle{d: d, Client: client, Yield: yield}
}

func (h *Handle) Dead() bool {
	h.mu.Lock()
	defer h.mu.Unlock()
	return h.dead
}

func (h *Handle) Steps() int {
	h.mu.Lock()
	defer h.mu.Unlock()
	return h.steps
}

func isData(path string) bool { return strings.Contains(path, "/data/") }

func pathKey(path string) uint64 {
	h := fnv.New64a()
	h.Write([]byte(path))
	return h.Sum64()
}

// sched parks the caller (metadata ops; data create/close/delete).
func (h *Handle) sched(op, path string) {
	if h.Yield && h.d.Sched != nil {
		h.d.Sched.Yield(h.Client, op, pathKey(shortPath(path)))
	}
}

// shortPath drops run-specific prefixes so scheduler keys are stable.
func shortPath(p string) string { return p }

// step accounts for one mutating step and reports whether the process dies
// at it.  It must be called with no lock held.
func (h *Handle) step(desc string) (die bool) {
	die, _ = h.step2(desc)
	return die
}

// step2 also reports whether this very step is the fatal one.
func (h *Handle) step2(desc string) (die, now bool) {
	h.mu.Lock()
	defer h.mu.Unlock()
	if h.dead {
		return true, false
	}
	h.steps++
	if h.KeepLog {
		h.StepLog = append(h.StepLog, fmt.Sprintf("%d %s", h.steps, desc))
	}
	if h.CrashAt > 0 && h.steps == h.CrashAt {
		h.dead = true
		h.CrashedAt = desc
		return true, true
	}
	return false, false
}

func (h *Handle) alive() error {
	h.mu.Lock()
	defer h.mu.Unlock()
	if h.dead {
		return ErrCrashed
	}
	return nil
}

func notExist(u *storage.URI) error {
	return fmt.Errorf("%s: %w", u, fs.ErrNotExist)
}

type reader struct {
	*bytes.Reader
	size int64
	h    *Handle
	path string
	data bool
}

func (r *reader) Close() error         { return nil }
func (r *reader) Size() (int64, error) { return r.size, nil }
func (r *reader) ReadAt(p []byte, off int64) (int, error) {
	if err := r.h.alive(); err != nil {
		return 0, err
	}
	if r.data {
		r.h.d.mu.Lock()
		r.h.d.DataReads[r.path]++
		r.h.d.DataRanges[r.path] = append(r.h.d.DataRanges[r.path], int(off), len(p))
		r.h.d.mu.Unlock()
	}
	return r.Reader.ReadAt(p, off)
}
func (r *reader) Read(p []byte) (int, error) {
	if err := r.h.alive(); err != nil {
		return 0, err
	}
	if r.data {
		r.h.d.mu.Lock()
		r.h.d.DataReads[r.path]++
		r.h.d.mu.Unlock()
	}
	return r.Reader.Read(p)
}

func (h *Handle) Get(_ context.Context, u *storage.URI) (storage.Reader, error) {
	path := u.Path
	if !isData(path) {
		h.sched("get", path)
	}
	if err := h.alive(); err != nil {
		return nil, err
	}
	h.d.mu.Lock()
	defer h.d.mu.Unlock()
	h.d.count("get")
	b, ok := h.d.files[path]
	if !ok {
		return nil, notExist(u)
	}
	c := append([]byte(nil), b...)
	return &reader{Reader: bytes.NewReader(c), size: int64(len(c)), h: h, path: path, data: isData(path)}, nil
}

type writer struct {
	h      *Handle
	path   string
	buf    []byte
	closed bool
	meta   bool
}

func (h *Handle) Put(_ context.Context, u *storage.URI) (io.WriteCloser, error) {
	path := u.Path
	h.sched("put", path)
	if h.step("put-create " + path) {
		return nil, ErrCrashed
	}
	d := h.d
	d.mu.Lock()
	defer d.mu.Unlock()
	d.count("put")
	w := &writer{h: h, path: path, meta: !isData(path)}
	if d.Mode == FileLike {
		d.files[path] = []byte{}
	}
	if w.meta {
		d.openMetaPuts++
	}
	return w, nil
}

func (w *writer) Write(p []byte) (int, error) {
	h := w.h
	if w.meta {
		h.sched("write", w.path)
	}
	die, now := h.step2(fmt.Sprintf("write %s (%d bytes)", w.path, len(p)))
	d := h.d
	d.mu.Lock()
	defer d.mu.Unlock()
	if die {
		// Torn write: a prefix of this call survives (file semantics only;
		// on an object store nothing is visible before Close anyway).
		if now && h.Tear > 0 && d.Mode == FileLike && !w.closed {
			n := len(p) * h.Tear / 8
			if _, ok := d.files[w.path]; ok && n > 0 {
				d.files[w.path] = append(d.files[w.path], p[:n]...)
			}
			h.mu.Lock()
			h.CrashedAt += fmt.Sprintf(" torn after %d bytes", n)
			h.mu.Unlock()
		}
		w.release()
		return 0, ErrCrashed
	}
	if d.Mode == FileLike {
		if _, ok := d.files[w.path]; ok {
			d.files[w.path] = append(d.files[w.path], p...)
		}
		// A file removed while open keeps accepting writes into the void.
	} else {
		w.buf = append(w.buf, p...)
	}
	return len(p), nil
}

// release must be called with d.mu held.
func (w *writer) release() {
	if !w.closed {
		w.closed = true
		if w.meta {
			w.h.d.openMetaPuts--
		}
	}
}

func (w *writer) Close() error {
	h := w.h
	if w.closed {
		return nil
	}
	h.sched("close", w.path)
	die := h.step("put-close " + w.path)
	d := h.d
	d.mu.Lock()
	defer d.mu.Unlock()
	w.release()
	if die {
		return ErrCrashed
	}
	if d.Mode == Atomic {
		d.files[w.path] = w.buf
	}
	return nil
}

func existsErr(path string) error {
	return &fs.PathError{Op: "open", Path: path, Err: syscall.EEXIST}
}

func (h *Handle) PutIfNotExists(_ context.Context, u *storage.URI, b []byte) error {
	path := u.Path
	h.sched("putifnotexists", path)
	d := h.d
	if d.Mode == Atomic {
		if h.step("putifnotexists " + path) {
			return ErrCrashed
		}
		d.mu.Lock()
		defer d.mu.Unlock()
		d.count("putifnotexists")
		if _, ok := d.files[path]; ok {
			return existsErr(path)
		}
		d.files[path] = append([]byte(nil), b...)
		return nil
	}
	// File semantics: create with O_EXCL, then fill.
	if h.step("putifnotexists-create " + path) {
		return ErrCrashed
	}
	d.mu.Lock()
	d.count("putifnotexists")
	if _, ok := d.files[path]; ok {
		d.mu.Unlock()
		return existsErr(path)
	}
	d.files[path] = []byte{}
	d.openMetaPuts++
	d.mu.Unlock()
	h.sched("putifnotexists-fill", path)
	die := h.step("putifnotexists-fill " + path)
	d.mu.Lock()
	defer d.mu.Unlock()
	d.openMetaPuts--
	if die {
		return ErrCrashed
	}
	if _, ok := d.files[path]; ok {
		d.files[path] = append([]byte(nil), b...)
	}
	return nil
}

func (h *Handle) Delete(_ context.Context, u *storage.URI) error {
	path := u.Path
	h.sched("delete", path)
	if h.step("delete " + path) {
		return ErrCrashed
	}
	d := h.d
	d.mu.Lock()
	defer d.mu.Unlock()
	d.count("delete")
	if _, ok := d.files[path]; !ok {
		return notExist(u)
	}
	delete(d.files, path)
	return nil
}

func (h *Handle) DeleteByPrefix(_ context.Context, u *storage.URI) error {
	path := u.Path
	h.sched("deletebyprefix", path)
	if h.step("deletebyprefix " + path) {
		return ErrCrashed
	}
	d := h.d
	d.mu.Lock()
	defer d.mu.Unlock()
	d.count("deletebyprefix")
	prefix := strings.TrimSuffix(path, "/") + "/"
	for k := range d.files {
		if k == path || strings.HasPrefix(k, prefix) {
			delete(d.files, k)
		}
	}
	return nil
}

func (h *Handle) Exists(_ context.Context, u *storage.URI) (bool, error) {
	path := u.Path
	if !isData(path) {
		h.sched("exists", path)
	}
	if err := h.alive(); err != nil {
		return false, err
	}
	d := h.d
	d.mu.Lock()
	defer d.mu.Unlock()
	d.count("exists")
	_, ok := d.files[path]
	return ok, nil
}

func (h *Handle) Size(_ context.Context, u *storage.URI) (int64, error) {
	path := u.Path
	if !isData(path) {
		h.sched("size", path)
	}
	if err := h.alive(); err != nil {
		return 0, err
	}
	d := h.d
	d.mu.Lock()
	defer d.mu.Unlock()
	d.count("size")
	b, ok := d.files[path]
	if !ok {
		return 0, notExist(u)
	}
	return int64(len(b)), nil
}

func (h *Handle) List(_ context.Context, u *storage.URI) ([]storage.Info, error) {
	path := u.Path
	h.sched("list", path)
	if err := h.alive(); err != nil {
		return nil, err
	}
	d := h.d
	d.mu.Lock()
	defer d.mu.Unlock()
	d.count("list")
	prefix := strings.TrimSuffix(path, "/") + "/"
	seen := map[string]int64{}
	for k, v := range d.files {
		if !strings.HasPrefix(k, prefix) {
			continue
		}
		rest := k[len(prefix):]
		if i := strings.IndexByte(rest, '/'); i >= 0 {
			seen[rest[:i]] += 0
			continue
		}
		seen[rest] = int64(len(v))
	}
	if len(seen) == 0 {
		return nil, notExist(u)
	}
	var out []storage.Info
	for k, v := range seen {
		out = append(out, storage.Info{Name: k, Size: v})
	}
	sort.Slice(out, func(i, j int) bool { return out[i].Name < out[j].Name })
	return out, nil
}

var _ storage.Engine = (*Handle)(nil)
