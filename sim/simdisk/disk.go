// Package simdisk is the storage the simulated lake sees: one Disk shared by
// any number of client Handles (each a storage.Engine).  A handle parks at the
// seeded scheduler before every metadata operation, counts its mutating steps
// and can be made to fail-stop (crash) at a chosen step, optionally tearing
// the write call it dies in.
//
// Two back ends: an in-memory object store with atomic put and put-if-absent
// (a stub), and the repository's real storage.FileSystem on a private
// directory (real code; its put is create/truncate + visible writes, and the
// inside of its PutIfNotExists is reached through a simhook point).
package simdisk

import (
	"bytes"
	"context"
	"errors"
	"fmt"
	"hash/fnv"
	"io"
	"io/fs"
	"os"
	"path/filepath"
	"sort"
	"strings"
	"sync"
	"syscall"

	"github.com/brimdata/super/pkg/simhook"
	"github.com/brimdata/super/pkg/storage"
	"verifsim/kernel"
)

type Mode int

const (
	// Atomic models an object store with conditional put: a Put becomes
	// visible at Close, PutIfNotExists is one atomic step.
	Atomic Mode = iota
	// FileFS is the real local file engine on a per-run directory.
	FileFS
)

func (m Mode) String() string {
	if m == Atomic {
		return "objstore"
	}
	return "filefs"
}

var ErrCrashed = errors.New("simdisk: process has crashed")

// debugLog prints every scheduled storage operation when it proceeds.
var debugLog = os.Getenv("VERIF_DEBUG") != ""

type crashPanic struct{}

type Disk struct {
	Mode  Mode
	Sched *kernel.Sched

	mu    sync.Mutex
	files map[string][]byte // Atomic mode
	fs    *storage.FileSystem
	dir   string
	cur   *Handle // handle currently inside the real engine (hook attribution)
	// HookTask, when set, makes in-process simhook points (scan legs,
	// merge/combine parents) scheduling points of that task.
	HookTask string
	// ParkAllHooks makes them scheduling points whether or not HookTask is
	// set (engines in which one client runs at a time; with several
	// clients the observer's reads would be interleaved with them).
	ParkAllHooks bool
	// Open (not yet closed) metadata puts, for "no metadata put is open"
	// instants.
	openMetaPuts int
	// Counters.
	Ops        map[string]int
	DataReads  map[string]int   // data-object path -> number of ReadAt/Read calls
	DataRanges map[string][]int // data-object path -> [off,len,...] of ReadAt calls
}

func shmDir() string {
	// The driver gives each check its own TMPDIR (on /dev/shm when there is
	// one) and removes it afterwards, so that a killed or restarted worker
	// leaves nothing behind.
	if dir := os.Getenv("TMPDIR"); dir != "" {
		return dir
	}
	if st, err := os.Stat("/dev/shm"); err == nil && st.IsDir() {
		return "/dev/shm"
	}
	return os.TempDir()
}

func NewDisk(mode Mode, sched *kernel.Sched) *Disk {
	d := &Disk{Mode: mode, Sched: sched, files: map[string][]byte{}, Ops: map[string]int{},
		DataReads: map[string]int{}, DataRanges: map[string][]int{}}
	if mode == FileFS {
		dir, err := os.MkdirTemp(shmDir(), "verif-simlake-")
		if err != nil {
			panic(err)
		}
		d.dir = dir
		d.fs = storage.NewFileSystem()
	}
	simhook.Handler = d.hook
	return d
}

// Close removes the run's directory.
func (d *Disk) Close() {
	simhook.Handler = nil
	if d.Mode == FileFS {
		os.RemoveAll(d.dir)
	}
}

// Root is the lake root URI on this disk.
func (d *Disk) Root() *storage.URI {
	if d.Mode == FileFS {
		return storage.MustParseURI("file://" + filepath.Join(d.dir, "simlake"))
	}
	return storage.MustParseURI("file:///simlake")
}

// rel strips the run-specific directory so that keys and logs are stable.
func (d *Disk) rel(path string) string {
	if d.Mode == FileFS {
		return strings.TrimPrefix(path, d.dir)
	}
	return path
}

// ResetDataReads clears the data-object read counters.
func (d *Disk) ResetDataReads() {
	d.mu.Lock()
	defer d.mu.Unlock()
	d.DataReads = map[string]int{}
	d.DataRanges = map[string][]int{}
}

// DataReadStats returns how many data objects (row files, not seek indexes or
// vectors) were read since the last reset, and how many of those were read
// through byte ranges taken from the seek index.
func (d *Disk) DataReadStats() (objects, ranged int) {
	d.mu.Lock()
	defer d.mu.Unlock()
	for p := range d.DataReads {
		if strings.HasSuffix(p, "-seek.zng") || strings.HasSuffix(p, ".vng") {
			continue
		}
		objects++
		if len(d.DataRanges[p]) > 0 {
			ranged++
		}
	}
	return objects, ranged
}

func (d *Disk) MetaPutOpen() bool {
	d.mu.Lock()
	defer d.mu.Unlock()
	return d.openMetaPuts > 0
}

func (d *Disk) count(op string) {
	d.mu.Lock()
	d.Ops[op]++
	d.mu.Unlock()
}

// hook is installed as simhook.Handler while a FileFS disk exists.
func (d *Disk) hook(site string, key uint64) {
	if strings.HasPrefix(site, "zed.context.") {
		// Callers of the type context may hold their own mutex
		// (meta.Lister): never park there.
		return
	}
	if !strings.HasPrefix(site, "storage.file.") {
		// In-process scheduling points (scan legs, merge/combine parents):
		// park the calling goroutine under the run's query task, if any.
		d.mu.Lock()
		task := d.HookTask
		d.mu.Unlock()
		if task == "" && !d.ParkAllHooks {
			return
		}
		if task == "" {
			// Outside the query phases too: a rewrite (delete-where,
			// compaction) merges scan legs, and the order in which they
			// deliver decides tie order and with it where the output is
			// cut into objects; left to the Go scheduler the run would
			// not replay.
			task = "op"
		}
		if d.Sched != nil {
			// Each (site, key) is its own task so that run-to-completion
			// policies still alternate between legs.
			d.Sched.Yield(fmt.Sprintf("%s:%s#%d", task, site, key), site, key)
		}
		return
	}
	d.mu.Lock()
	h := d.cur
	d.mu.Unlock()
	if h == nil {
		return
	}
	h.sched(site, h.curPath)
	if h.step(site + " " + d.rel(h.curPath)) {
		panic(crashPanic{})
	}
}

// Handle is one client's (one process's) view of the disk.
type Handle struct {
	d      *Disk
	Client string
	// Yield makes the handle park at the scheduler before metadata ops.
	Yield bool
	// ReadOnly makes every mutation a successful no-op: the observer must
	// not leave derived files (snapshots) behind for the clients to find.
	ReadOnly bool

	mu      sync.Mutex
	dead    bool
	steps   int // mutating steps performed or attempted
	CrashAt int // die at this mutating step (1-based); 0 = never
	// Tear: when the fatal step is a Write call, keep this many 1/8ths of it.
	Tear      int
	CrashedAt string // description of the step the handle died at
	StepLog   []string
	KeepLog   bool
	curPath   string
}

func (d *Disk) NewHandle(client string, yield bool) *Handle {
	return &Handle{d: d, Client: client, Yield: yield}
}

func (h *Handle) Dead() bool {
	h.mu.Lock()
	defer h.mu.Unlock()
	return h.dead
}

func (h *Handle) Steps() int {
	h.mu.Lock()
	defer h.mu.Unlock()
	return h.steps
}

func isData(path string) bool { return strings.Contains(path, "/data/") }

func pathKey(path string) uint64 {
	h := fnv.New64a()
	h.Write([]byte(path))
	return h.Sum64()
}

// sched parks the caller (metadata ops; data create/close/delete).
func (h *Handle) sched(op, path string) {
	if debugLog {
		defer func() { fmt.Fprintf(os.Stderr, "DISK %s %s %s\n", h.Client, op, h.d.rel(path)) }()
	}
	if h.Yield && h.d.Sched != nil {
		h.d.Sched.Yield(h.Client, op, pathKey(h.d.rel(path)))
	}
}

// step accounts for one mutating step and reports whether the process dies
// at it.  It must be called with no lock held.
func (h *Handle) step(desc string) (die bool) {
	die, _ = h.step2(desc)
	return die
}

// step2 also reports whether this very step is the fatal one.
func (h *Handle) step2(desc string) (die, now bool) {
	h.mu.Lock()
	defer h.mu.Unlock()
	if h.dead {
		return true, false
	}
	h.steps++
	if h.KeepLog {
		h.StepLog = append(h.StepLog, fmt.Sprintf("%d %s", h.steps, desc))
	}
	if h.CrashAt > 0 && h.steps == h.CrashAt {
		h.dead = true
		h.CrashedAt = desc
		return true, true
	}
	return false, false
}

func (h *Handle) alive() error {
	h.mu.Lock()
	defer h.mu.Unlock()
	if h.dead {
		return ErrCrashed
	}
	return nil
}

func notExist(u *storage.URI) error {
	return fmt.Errorf("%s: %w", u, fs.ErrNotExist)
}

// reader wraps a storage.Reader to refuse service to a dead process and to
// count data-object reads.
type reader struct {
	storage.Reader
	h    *Handle
	path string
	data bool
}

func (r *reader) Size() (int64, error) { return storage.Size(r.Reader) }
func (r *reader) ReadAt(p []byte, off int64) (int, error) {
	if err := r.h.alive(); err != nil {
		return 0, err
	}
	if r.data {
		d := r.h.d
		d.mu.Lock()
		d.DataReads[r.path]++
		d.DataRanges[r.path] = append(d.DataRanges[r.path], int(off), len(p))
		d.mu.Unlock()
	}
	return r.Reader.ReadAt(p, off)
}
func (r *reader) Read(p []byte) (int, error) {
	if err := r.h.alive(); err != nil {
		return 0, err
	}
	if r.data {
		d := r.h.d
		d.mu.Lock()
		d.DataReads[r.path]++
		d.mu.Unlock()
	}
	return r.Reader.Read(p)
}

type memReader struct {
	*bytes.Reader
	size int64
}

func (memReader) Close() error           { return nil }
func (m memReader) Size() (int64, error) { return m.size, nil }

func (h *Handle) Get(ctx context.Context, u *storage.URI) (storage.Reader, error) {
	path := u.Path
	if !isData(path) {
		h.sched("get", path)
	}
	if err := h.alive(); err != nil {
		return nil, err
	}
	d := h.d
	d.count("get")
	rel := d.rel(path)
	if d.Mode == FileFS {
		r, err := d.fs.Get(ctx, u)
		if err != nil {
			return nil, err
		}
		return &reader{Reader: r, h: h, path: rel, data: isData(path)}, nil
	}
	d.mu.Lock()
	b, ok := d.files[path]
	d.mu.Unlock()
	if !ok {
		return nil, notExist(u)
	}
	c := append([]byte(nil), b...)
	return &reader{Reader: memReader{bytes.NewReader(c), int64(len(c))}, h: h, path: rel, data: isData(path)}, nil
}

type writer struct {
	h      *Handle
	path   string
	buf    []byte         // Atomic mode
	file   io.WriteCloser // FileFS mode
	closed bool
	meta   bool
}

type discard struct{}

func (discard) Write(p []byte) (int, error) { return len(p), nil }
func (discard) Close() error                { return nil }

func (h *Handle) Put(ctx context.Context, u *storage.URI) (io.WriteCloser, error) {
	if h.ReadOnly {
		return discard{}, nil
	}
	path := u.Path
	h.sched("put", path)
	d := h.d
	if h.step("put-create " + d.rel(path)) {
		return nil, ErrCrashed
	}
	d.count("put")
	w := &writer{h: h, path: path, meta: !isData(path)}
	if d.Mode == FileFS {
		f, err := d.fs.Put(ctx, u)
		if err != nil {
			return nil, err
		}
		w.file = f
	}
	if w.meta {
		d.mu.Lock()
		d.openMetaPuts++
		d.mu.Unlock()
	}
	return w, nil
}

func (w *writer) Write(p []byte) (int, error) {
	h := w.h
	d := h.d
	if w.meta {
		h.sched("write", w.path)
	}
	if debugLog && len(p) < 24 {
		fmt.Fprintf(os.Stderr, "DISK %s write-bytes %s %q\n", h.Client, d.rel(w.path), p)
	}
	die, now := h.step2(fmt.Sprintf("write %s (%d bytes)", d.rel(w.path), len(p)))
	if die {
		// Torn write: a prefix of this call survives (file semantics only;
		// on an object store nothing is visible before Close anyway).
		if now && h.Tear > 0 && d.Mode == FileFS && !w.closed {
			n := len(p) * h.Tear / 8
			if n > 0 {
				w.file.Write(p[:n])
			}
			h.mu.Lock()
			h.CrashedAt += fmt.Sprintf(" torn after %d bytes", n)
			h.mu.Unlock()
		}
		w.release()
		return 0, ErrCrashed
	}
	if d.Mode == FileFS {
		return w.file.Write(p)
	}
	w.buf = append(w.buf, p...)
	return len(p), nil
}

func (w *writer) release() {
	if !w.closed {
		w.closed = true
		if w.file != nil {
			w.file.Close() // the kernel closes a dead process's files
		}
		if w.meta {
			d := w.h.d
			d.mu.Lock()
			d.openMetaPuts--
			d.mu.Unlock()
		}
	}
}

func (w *writer) Close() error {
	h := w.h
	if w.closed {
		return nil
	}
	h.sched("close", w.path)
	d := h.d
	die := h.step("put-close " + d.rel(w.path))
	w.release()
	if die {
		return ErrCrashed
	}
	if d.Mode == Atomic {
		d.mu.Lock()
		d.files[w.path] = w.buf
		d.mu.Unlock()
	}
	return nil
}

func existsErr(path string) error {
	return &fs.PathError{Op: "open", Path: path, Err: syscall.EEXIST}
}

func (h *Handle) PutIfNotExists(ctx context.Context, u *storage.URI, b []byte) (err error) {
	if h.ReadOnly {
		return nil
	}
	path := u.Path
	h.sched("putifnotexists", path)
	d := h.d
	if h.step("putifnotexists " + d.rel(path)) {
		return ErrCrashed
	}
	d.count("putifnotexists")
	if d.Mode == Atomic {
		d.mu.Lock()
		defer d.mu.Unlock()
		if _, ok := d.files[path]; ok {
			return existsErr(path)
		}
		d.files[path] = append([]byte(nil), b...)
		return nil
	}
	// Real file engine; its inside is reached through the simhook point.
	d.mu.Lock()
	d.cur = h
	d.openMetaPuts++
	d.mu.Unlock()
	h.curPath = path
	defer func() {
		d.mu.Lock()
		d.cur = nil
		d.openMetaPuts--
		d.mu.Unlock()
		if r := recover(); r != nil {
			if _, ok := r.(crashPanic); ok {
				err = ErrCrashed
				return
			}
			panic(r)
		}
	}()
	return d.fs.PutIfNotExists(ctx, u, b)
}

func (h *Handle) Delete(ctx context.Context, u *storage.URI) error {
	if h.ReadOnly {
		return nil
	}
	path := u.Path
	h.sched("delete", path)
	d := h.d
	if h.step("delete " + d.rel(path)) {
		return ErrCrashed
	}
	d.count("delete")
	if d.Mode == FileFS {
		return d.fs.Delete(ctx, u)
	}
	d.mu.Lock()
	defer d.mu.Unlock()
	if _, ok := d.files[path]; !ok {
		return notExist(u)
	}
	delete(d.files, path)
	return nil
}

func (h *Handle) DeleteByPrefix(ctx context.Context, u *storage.URI) error {
	if h.ReadOnly {
		return nil
	}
	path := u.Path
	h.sched("deletebyprefix", path)
	d := h.d
	if h.step("deletebyprefix " + d.rel(path)) {
		return ErrCrashed
	}
	d.count("deletebyprefix")
	if d.Mode == FileFS {
		return d.fs.DeleteByPrefix(ctx, u)
	}
	d.mu.Lock()
	defer d.mu.Unlock()
	prefix := strings.TrimSuffix(path, "/") + "/"
	for k := range d.files {
		if k == path || strings.HasPrefix(k, prefix) {
			delete(d.files, k)
		}
	}
	return nil
}

func (h *Handle) Exists(ctx context.Context, u *storage.URI) (bool, error) {
	path := u.Path
	if !isData(path) {
		h.sched("exists", path)
	}
	if err := h.alive(); err != nil {
		return false, err
	}
	d := h.d
	d.count("exists")
	if d.Mode == FileFS {
		return d.fs.Exists(ctx, u)
	}
	d.mu.Lock()
	defer d.mu.Unlock()
	_, ok := d.files[path]
	return ok, nil
}

func (h *Handle) Size(ctx context.Context, u *storage.URI) (int64, error) {
	path := u.Path
	if !isData(path) {
		h.sched("size", path)
	}
	if err := h.alive(); err != nil {
		return 0, err
	}
	d := h.d
	d.count("size")
	if d.Mode == FileFS {
		return d.fs.Size(ctx, u)
	}
	d.mu.Lock()
	defer d.mu.Unlock()
	b, ok := d.files[path]
	if !ok {
		return 0, notExist(u)
	}
	return int64(len(b)), nil
}

func (h *Handle) List(ctx context.Context, u *storage.URI) ([]storage.Info, error) {
	path := u.Path
	h.sched("list", path)
	if err := h.alive(); err != nil {
		return nil, err
	}
	d := h.d
	d.count("list")
	if d.Mode == FileFS {
		infos, err := d.fs.List(ctx, u)
		sort.Slice(infos, func(i, j int) bool { return infos[i].Name < infos[j].Name })
		return infos, err
	}
	d.mu.Lock()
	defer d.mu.Unlock()
	prefix := strings.TrimSuffix(path, "/") + "/"
	seen := map[string]int64{}
	for k, v := range d.files {
		if !strings.HasPrefix(k, prefix) {
			continue
		}
		rest := k[len(prefix):]
		if i := strings.IndexByte(rest, '/'); i >= 0 {
			seen[rest[:i]] += 0
			continue
		}
		seen[rest] = int64(len(v))
	}
	if len(seen) == 0 {
		return nil, notExist(u)
	}
	var out []storage.Info
	for k, v := range seen {
		out = append(out, storage.Info{Name: k, Size: v})
	}
	sort.Slice(out, func(i, j int) bool { return out[i].Name < out[j].Name })
	return out, nil
}

var _ storage.Engine = (*Handle)(nil)
