// Package kernel holds the pieces every simulation engine shares: the choice
// tape (one integer decides everything, every draw is recorded and can be
// replayed or shrunk), the seeded scheduler, the generic minimiser and the
// worker protocol spoken with /verif/check.
package kernel

import (
	"encoding/json"
	"fmt"
	"hash/fnv"
	"os"
	"sort"
)

// splitmix64 is the only PRNG used.  It is tiny, has no global state and its
// output is a pure function of the seed.
type splitmix64 struct{ s uint64 }

func (r *splitmix64) next() uint64 {
	r.s += 0x9e3779b97f4a7c15
	z := r.s
	z = (z ^ (z >> 30)) * 0xbf58476d1ce4e5b9
	z = (z ^ (z >> 27)) * 0x94d049bb133111eb
	return z ^ (z >> 31)
}

// Mix derives an independent seed from a seed and an index or label hash.
func Mix(seed uint64, i uint64) uint64 {
	r := splitmix64{s: seed ^ (i+1)*0xd6e8feb86659fd93}
	r.next()
	return r.next()
}

func labelHash(s string) uint64 {
	h := fnv.New64a()
	h.Write([]byte(s))
	return h.Sum64()
}

// Stream is one labelled sequence of draws.  In generate mode the draws come
// from the PRNG; in replay mode they come from the recorded list (reduced
// modulo the bound, 0 when the list is exhausted) so that every list is a
// valid execution and shrinking a list never produces an invalid one.
type Stream struct {
	rng    splitmix64
	replay []uint64
	pos    int
	fixed  bool
	Rec    []uint64
}

// Draw returns a value in [0,n).  n == 0 is treated as 1.  Zero is by
// convention always the simplest choice (no fault, no preemption, smallest
// size) because that is where the minimiser drives draws.
func (s *Stream) Draw(n uint64) uint64 {
	if n == 0 {
		n = 1
	}
	var v uint64
	if s.fixed {
		if s.pos < len(s.replay) {
			v = s.replay[s.pos] % n
		}
		s.pos++
	} else {
		v = s.rng.next() % n
	}
	s.Rec = append(s.Rec, v)
	return v
}

func (s *Stream) Intn(n int) int { return int(s.Draw(uint64(n))) }

// Range returns a value in [lo,hi] (inclusive); lo is the simplest.
func (s *Stream) Range(lo, hi int) int {
	if hi <= lo {
		return lo
	}
	return lo + int(s.Draw(uint64(hi-lo+1)))
}

// Chance is true with probability num/den; false is the simplest.
func (s *Stream) Chance(num, den int) bool {
	v := s.Draw(uint64(den))
	return v >= uint64(den-num)
}

// Pick returns an index weighted by w; index 0 is the simplest.
func (s *Stream) Pick(w ...int) int {
	total := 0
	for _, x := range w {
		total += x
	}
	v := int(s.Draw(uint64(total)))
	for i, x := range w {
		if v < x {
			return i
		}
		v -= x
	}
	return len(w) - 1
}

// Tape is the set of labelled streams of one run.
type Tape struct {
	Seed    uint64
	streams map[string]*Stream
	fixed   map[string][]uint64
	replay  bool
	pinned  map[string]bool
}

func NewTape(seed uint64) *Tape {
	return &Tape{Seed: seed, streams: map[string]*Stream{}}
}

// NewReplayTape replays recorded draws; streams absent from rec draw zeros.
func NewReplayTape(seed uint64, rec map[string][]uint64) *Tape {
	return &Tape{Seed: seed, streams: map[string]*Stream{}, fixed: rec, replay: true}
}

// Pin makes one stream of a generating tape draw zeros only (the base run of
// a fault enumeration: "no fault").
func (t *Tape) Pin(label string) {
	if t.pinned == nil {
		t.pinned = map[string]bool{}
	}
	t.pinned[label] = true
}

func (t *Tape) Stream(label string) *Stream {
	if s, ok := t.streams[label]; ok {
		return s
	}
	s := &Stream{rng: splitmix64{s: Mix(t.Seed, labelHash(label))}}
	if t.pinned[label] {
		s.fixed = true
	} else if t.replay {
		s.fixed = true
		s.replay = t.fixed[label]
	}
	t.streams[label] = s
	return s
}

// Record returns what every stream drew in this run.
func (t *Tape) Record() map[string][]uint64 {
	out := map[string][]uint64{}
	for k, s := range t.streams {
		out[k] = append([]uint64(nil), s.Rec...)
	}
	return out
}

// Hash of everything drawn (used as the identity of a case).
func (t *Tape) Hash() uint64 {
	keys := make([]string, 0, len(t.streams))
	for k := range t.streams {
		keys = append(keys, k)
	}
	sort.Strings(keys)
	h := fnv.New64a()
	var b [8]byte
	for _, k := range keys {
		h.Write([]byte(k))
		for _, v := range t.streams[k].Rec {
			for i := 0; i < 8; i++ {
				b[i] = byte(v >> (8 * i))
			}
			h.Write(b[:])
		}
	}
	return h.Sum64()
}

// Replay is the file written for a violation.  Replaying it is a pure
// function of this file and the code.
type Replay struct {
	Property    string              `json:"property"`
	Engine      string              `json:"engine"`
	Mode        string              `json:"mode"`
	Seed        uint64              `json:"seed"`
	Tape        map[string][]uint64 `json:"tape"`
	Signature   string              `json:"signature"`
	Message     string              `json:"message"`
	Description []string            `json:"description,omitempty"`
	Trace       []string            `json:"trace,omitempty"`
	TraceHash   string              `json:"trace_hash,omitempty"`
	// Generate: the tape is not recorded; re-generate it from Seed with the
	// Pin streams drawing zeros (written before a case starts, so that a
	// process crash in the middle of the case still leaves a replay file).
	Generate   bool     `json:"generate,omitempty"`
	Pin        []string `json:"pin,omitempty"`
	Minimised  bool     `json:"minimised"`
	ShrinkRuns int      `json:"shrink_runs"`
	OrigDraws  int      `json:"orig_draws"`
	Draws      int      `json:"draws"`
}

func (r *Replay) Write(path string) error {
	b, err := json.MarshalIndent(r, "", " ")
	if err != nil {
		return err
	}
	return os.WriteFile(path, b, 0o644)
}

func ReadReplay(path string) (*Replay, error) {
	b, err := os.ReadFile(path)
	if err != nil {
		return nil, err
	}
	var r Replay
	if err := json.Unmarshal(b, &r); err != nil {
		return nil, fmt.Errorf("%s: %w", path, err)
	}
	return &r, nil
}

func countDraws(m map[string][]uint64) int {
	n := 0
	for _, v := range m {
		n += len(v)
	}
	return n
}
