package kernel

import (
	"fmt"
	"hash/fnv"
	"os"
	"sort"
	"sync"
	"sync/atomic"
	"testing/synctest"
)

// stepLog, when VERIF_STEP_LOG names a file, receives one line per scheduler
// step (debugging aid for the determinism self-test).
var stepLog = func() *os.File {
	if path := os.Getenv("VERIF_STEP_LOG"); path != "" {
		f, _ := os.OpenFile(path, os.O_CREATE|os.O_WRONLY|os.O_APPEND, 0o644)
		return f
	}
	return nil
}()

// Progress is bumped at every scheduler step and every case; the real-time
// watchdog (watchdog.go) exits 2 when it stops moving.
var Progress atomic.Uint64

type parked struct {
	task    string
	site    string
	key     uint64
	arrival uint64
	ch      chan struct{}
}

// Sched is the seeded cooperative scheduler.  It must be created and run
// inside a testing/synctest bubble.  Goroutines of the system under test call
// Yield at their scheduling points; exactly one of them is released per step
// and only after every other goroutine of the bubble is durably blocked.
type Sched struct {
	mu       sync.Mutex
	parked   []*parked
	nudge    chan struct{}
	stream   *Stream
	arrivals uint64
	alive    int
	last     string
	step     int
	hash     uint64
	trace    []string
	keep     int
	// policy
	policy    int
	budget    int
	stallTask string
	stallLeft int
	prio      map[string]int
	// stats
	Preemptions int
	MaxParked   int
	MaxSteps    int
	Aborted     bool
	active      bool           // between the first Go and the return of Run
	OnStep      func(step int) // invariant hook, called with nothing running
}

const (
	PolicyBudget  = iota // run-to-completion with a bounded number of random preemptions
	PolicyUniform        // uniform choice among parked goroutines
	PolicyStall          // like budget, but one task is held back for a while
	PolicyPrio           // random priorities, changed at a few random steps
	numPolicies
)

// NewSched draws its policy from the schedule stream.
func NewSched(stream *Stream, keepTrace int) *Sched {
	s := &Sched{nudge: make(chan struct{}, 1), stream: stream, keep: keepTrace, MaxSteps: 200000, prio: map[string]int{}}
	s.policy = stream.Pick(4, 3, 1, 2)
	s.budget = stream.Range(0, 6)
	if s.policy == PolicyStall {
		s.stallLeft = stream.Range(1, 40)
	}
	s.hash = 1469598103934665603
	return s
}

// SetPolicy overrides the drawn policy (engines whose parked goroutines share
// one task name need the uniform policy to get any diversity).
func (s *Sched) SetPolicy(p int) {
	s.mu.Lock()
	s.policy = p
	s.mu.Unlock()
}

func (s *Sched) PolicyName() string {
	return [...]string{"budget", "uniform", "stall", "prio"}[s.policy]
}

// Go starts a task goroutine that the scheduler waits for.
func (s *Sched) Go(f func()) {
	s.mu.Lock()
	s.active = true
	s.alive++
	s.mu.Unlock()
	go func() {
		defer func() {
			s.mu.Lock()
			s.alive--
			s.mu.Unlock()
			s.poke()
		}()
		f()
	}()
}

func (s *Sched) poke() {
	select {
	case s.nudge <- struct{}{}:
	default:
	}
}

// Yield parks the calling goroutine until the scheduler releases it.
// The caller must not hold any sync.Mutex another goroutine may want.
func (s *Sched) Yield(task, site string, key uint64) {
	s.mu.Lock()
	if s.Aborted || !s.active {
		// No task has been started yet, or Run has returned: the caller is
		// the bubble's root (set-up, final observation); nobody would
		// release it.
		s.mu.Unlock()
		return
	}
	s.arrivals++
	p := &parked{task: task, site: site, key: key, arrival: s.arrivals, ch: make(chan struct{})}
	s.parked = append(s.parked, p)
	s.mu.Unlock()
	s.poke()
	<-p.ch
}

// Step is the global event sequence number (used to stamp histories).
func (s *Sched) Step() int {
	s.mu.Lock()
	defer s.mu.Unlock()
	return s.step
}

// Run drives the bubble until every task started with Go has returned.
func (s *Sched) Run() {
	for {
		synctest.Wait()
		s.mu.Lock()
		if s.alive == 0 && len(s.parked) == 0 {
			s.active = false
			s.mu.Unlock()
			return
		}
		if len(s.parked) == 0 {
			s.mu.Unlock()
			// Nothing is at a scheduling point: let fake time pass
			// (sleepers, timers) until somebody parks or exits.
			<-s.nudge
			continue
		}
		if s.step >= s.MaxSteps {
			// Step cap: stop scheduling, let everything run free.
			s.Aborted = true
			ps := s.parked
			s.parked = nil
			s.mu.Unlock()
			for _, p := range ps {
				close(p.ch)
			}
			continue
		}
		sort.Slice(s.parked, func(i, j int) bool {
			a, b := s.parked[i], s.parked[j]
			if a.task != b.task {
				return a.task < b.task
			}
			if a.site != b.site {
				return a.site < b.site
			}
			if a.key != b.key {
				return a.key < b.key
			}
			return a.arrival < b.arrival
		})
		if len(s.parked) > s.MaxParked {
			s.MaxParked = len(s.parked)
		}
		i := s.choose()
		p := s.parked[i]
		s.parked = append(s.parked[:i], s.parked[i+1:]...)
		if s.last != "" && p.task != s.last {
			for _, q := range s.parked {
				if q.task == s.last {
					s.Preemptions++
					break
				}
			}
		}
		s.last = p.task
		s.step++
		s.note(p)
		step := s.step
		s.mu.Unlock()
		Progress.Add(1)
		if s.OnStep != nil {
			s.OnStep(step)
		}
		close(p.ch)
	}
}

func (s *Sched) note(p *parked) {
	h := fnv.New64a()
	fmt.Fprintf(h, "%d|%s|%s|%d", s.hash, p.task, p.site, p.key)
	s.hash = h.Sum64()
	if stepLog != nil {
		var rest []string
		for _, q := range s.parked {
			rest = append(rest, q.task)
		}
		fmt.Fprintf(stepLog, "%d %s %s %d parked=%v\n", s.step, p.task, p.site, p.key, rest)
	}
	if len(s.trace) < s.keep {
		s.trace = append(s.trace, fmt.Sprintf("%d %s %s %d", s.step, p.task, p.site, p.key))
	}
}

// lastIndex returns the index of the first parked entry of the task that ran
// last, or -1.
func (s *Sched) lastIndex() int {
	for i, p := range s.parked {
		if p.task == s.last {
			return i
		}
	}
	return -1
}

func (s *Sched) choose() int {
	n := len(s.parked)
	if n == 1 {
		return 0
	}
	li := s.lastIndex()
	// other(k) = k-th parked entry that is not li.
	other := func(k int) int {
		if li >= 0 && k >= li {
			return k + 1
		}
		return k
	}
	switch s.policy {
	case PolicyUniform:
		// 0 keeps the running task when it is parked.
		d := s.stream.Intn(n)
		if li < 0 {
			return d
		}
		if d == 0 {
			return li
		}
		return other(d - 1)
	case PolicyPrio:
		for _, p := range s.parked {
			if _, ok := s.prio[p.task]; !ok {
				s.prio[p.task] = s.stream.Intn(1000)
			}
		}
		if s.budget > 0 && s.stream.Chance(1, 25) {
			s.budget--
			s.prio[s.parked[s.stream.Intn(n)].task] = s.stream.Intn(1000)
		}
		best := 0
		for i, p := range s.parked {
			if s.prio[p.task] < s.prio[s.parked[best].task] {
				best = i
			}
		}
		return best
	default: // budget, stall
		if s.policy == PolicyStall && s.stallLeft > 0 {
			if s.stallTask == "" {
				s.stallTask = s.parked[s.stream.Intn(n)].task
			}
			s.stallLeft--
			var cand []int
			for i, p := range s.parked {
				if p.task != s.stallTask {
					cand = append(cand, i)
				}
			}
			if len(cand) > 0 && len(cand) < n {
				for _, i := range cand {
					if i == li {
						return i
					}
				}
				return cand[s.stream.Intn(len(cand))]
			}
		}
		if li < 0 {
			return s.stream.Intn(n)
		}
		if s.budget > 0 && s.stream.Chance(1, 8) {
			s.budget--
			return other(s.stream.Intn(n - 1))
		}
		return li
	}
}

// Last is the task of the goroutine released most recently, i.e. (because
// exactly one goroutine runs between scheduling points) the task that is
// running now.  Hook handlers use it to attribute anonymous hook points.
func (s *Sched) Last() string {
	s.mu.Lock()
	defer s.mu.Unlock()
	return s.last
}

// TraceHash identifies the interleaving that was executed.
func (s *Sched) TraceHash() uint64 { return s.hash }
func (s *Sched) Trace() []string   { return s.trace }
func (s *Sched) Steps() int        { return s.step }
