package kernel

import (
	"fmt"
	"os"
	"runtime"
	"time"
)

// startWatchdog exits 2 (harness trouble, never a violation) with all stacks
// when no scheduler step and no case completes for VERIF_WATCHDOG_S real
// seconds.  It runs outside any synctest bubble, on the real clock.
func startWatchdog() {
	limit := time.Duration(envInt("VERIF_WATCHDOG_S", 120)) * time.Second
	go func() {
		last := Progress.Load()
		lastChange := time.Now()
		for {
			time.Sleep(time.Second)
			if cur := Progress.Load(); cur != last {
				last, lastChange = cur, time.Now()
				continue
			}
			if time.Since(lastChange) > limit {
				buf := make([]byte, 1<<20)
				n := runtime.Stack(buf, true)
				fmt.Fprintf(os.Stderr, "WATCHDOG: no progress for %v (prop %s)\n%s\n", limit, os.Getenv("VERIF_PROP"), buf[:n])
				os.Exit(3)
			}
		}
	}()
}
