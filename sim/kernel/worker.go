package kernel

import (
	"encoding/json"
	"fmt"
	"os"
	"path/filepath"
	"runtime"
	"runtime/debug"
	"sort"
	"strconv"
	"strings"
	"testing"
	"time"
)

// Violation is one observed breach of a property.  Signature names the class
// (stable across seeds; it is what KNOWN_FINDINGS.json and the minimiser
// match on); Message carries the concrete observation.
type Violation struct {
	Signature string   `json:"signature"`
	Message   string   `json:"message"`
	Trace     []string `json:"trace,omitempty"`
}

func Violatef(sig, format string, a ...any) *Violation {
	return &Violation{Signature: sig, Message: fmt.Sprintf(format, a...)}
}

// Outcome is what one simulated run reports.
type Outcome struct {
	Violation  *Violation
	Nontrivial bool           // by the property's stated rule
	CaseHash   uint64         // identity of the case for distinct counting; 0 = hash of the tape
	Bucket     string         // configuration label, counted
	Faults     map[string]int // fault kinds that actually fired
	Probes     map[string]int // reach probes
	Meta       map[string]int // numbers Expand needs (e.g. number of sink writes)
	Steps      int            // scheduler steps
	SimNanos   int64          // simulated (bubble) time covered
	Desc       any            // written out as a sample
	Trace      []string
	TraceHash  uint64
}

func (o *Outcome) Fault(kind string) {
	if o.Faults == nil {
		o.Faults = map[string]int{}
	}
	o.Faults[kind]++
}

func (o *Outcome) Probe(name string) { o.ProbeN(name, 1) }
func (o *Outcome) ProbeN(name string, n int) {
	if o.Probes == nil {
		o.Probes = map[string]int{}
	}
	o.Probes[name] += n
}

// Prop binds a property id to its simulation.
type Prop struct {
	ID     string
	Engine string
	// RunOne executes exactly one case; every choice comes from the tape.
	RunOne func(tape *Tape) *Outcome
	// PinBase lists streams that draw zeros ("no fault") in the base run
	// of a seed; Expand then derives the faulty cases from the base run.
	PinBase []string
	// Expand returns, for a fault-free base run, the recorded tapes of the
	// cases to run next (fault enumeration along the base run's trace).
	Expand func(tier string, base *Outcome, rec map[string][]uint64, x *Stream) []map[string][]uint64
	// Level etc. are filled into the evidence by the driver.
	Rule string
}

// T is the *testing.T of the worker's single test; synctest needs it.
var T *testing.T

type workerViolation struct {
	Signature string `json:"signature"`
	Message   string `json:"message"`
	Replay    string `json:"replay"`
	Seed      uint64 `json:"seed"`
	Index     uint64 `json:"index"`
	Exact     bool   `json:"replay_exact"`
	Minimised bool   `json:"minimised"`
}

type workerReport struct {
	Property     string            `json:"property"`
	Worker       int               `json:"worker"`
	Seed         uint64            `json:"seed"`
	Tier         string            `json:"tier"`
	Evaluations  int               `json:"evaluations"`
	BaseCases    int               `json:"base_cases"`
	Nontrivial   int               `json:"nontrivial"`
	Hashes       []string          `json:"hashes"`
	HashesCapped bool              `json:"hashes_capped"`
	Faults       map[string]int    `json:"faults"`
	Probes       map[string]int    `json:"probes"`
	Buckets      map[string]int    `json:"buckets"`
	Steps        int               `json:"steps"`
	SimNanos     int64             `json:"sim_nanos"`
	Samples      []any             `json:"samples"`
	Violations   []workerViolation `json:"violations"`
	Known        []workerViolation `json:"known"`
	KnownCounts  map[string]int    `json:"known_counts"`
	WallS        float64           `json:"wall_s"`
	GoVersion    string            `json:"go_version"`
	Replayed     *workerViolation  `json:"replayed,omitempty"`
	// Resume, when non-zero, is the case number at which the driver should
	// start a fresh process for this worker slot: this one stopped early
	// because its memory grew past VERIF_MEM_LIMIT_MB (goroutines that the
	// code under test leaves blocked keep their buffers for ever).
	Resume uint64 `json:"resume,omitempty"`
}

type knownFinding struct {
	Property  string `json:"property"`
	Status    string `json:"status"`
	Signature string `json:"signature"`
}

func loadKnown(prop string) []string {
	path := os.Getenv("VERIF_KNOWN")
	if path == "" {
		return nil
	}
	b, err := os.ReadFile(path)
	if err != nil {
		return nil
	}
	var f struct {
		Findings []knownFinding `json:"findings"`
	}
	if json.Unmarshal(b, &f) != nil {
		fmt.Fprintf(os.Stderr, "cannot parse %s\n", path)
		os.Exit(3)
	}
	var out []string
	for _, k := range f.Findings {
		if k.Property == prop && k.Status == "known" {
			out = append(out, k.Signature)
		}
	}
	return out
}

var knownSigs []string

// IsKnown reports whether sig is listed as a known (recorded, unrepaired)
// finding of the property being checked.  Engines whose runs can trip over a
// known finding use it to keep looking for other violations in the same run.
func IsKnown(sig string) bool { return matchKnown(knownSigs, sig) }

func matchKnown(known []string, sig string) bool {
	for _, k := range known {
		if k == sig {
			return true
		}
		if strings.HasSuffix(k, "*") && strings.HasPrefix(sig, strings.TrimSuffix(k, "*")) {
			return true
		}
	}
	return false
}

func envInt(name string, def int) int {
	if v := os.Getenv(name); v != "" {
		n, err := strconv.ParseInt(v, 10, 64)
		if err == nil {
			return int(n)
		}
	}
	return def
}

func sortedCounts(m map[string]int) string {
	keys := make([]string, 0, len(m))
	for k := range m {
		keys = append(keys, k)
	}
	sort.Strings(keys)
	var b strings.Builder
	for _, k := range keys {
		fmt.Fprintf(&b, "%s:%d,", k, m[k])
	}
	return b.String()
}

func envU64(name string, def uint64) uint64 {
	if v := os.Getenv(name); v != "" {
		if n, err := strconv.ParseUint(v, 10, 64); err == nil {
			return n
		}
		if n, err := strconv.ParseInt(v, 10, 64); err == nil {
			return uint64(n)
		}
	}
	return def
}

// safeRun runs one case and turns a panic on the calling goroutine into a
// violation (a panic is never an acceptable outcome of any property here).
func safeRun(p *Prop, tape *Tape) (out *Outcome) {
	defer func() {
		if r := recover(); r != nil {
			st := string(debug.Stack())
			out = &Outcome{Violation: &Violation{
				Signature: p.ID + ":panic:" + panicSite(st),
				Message:   fmt.Sprintf("panic: %v\n%s", r, st),
			}}
		}
	}()
	out = p.RunOne(tape)
	if out == nil {
		out = &Outcome{}
	}
	return out
}

// noteCurrent records the case about to run, when the driver asked for it
// (VERIF_CRASH_FILES=1): a panic on a goroutine the harness cannot recover
// kills the process, and the driver then reports this file as the replay.
func noteCurrent(p *Prop, outDir string, worker int, rp *Replay) {
	if os.Getenv("VERIF_CRASH_FILES") == "" {
		return
	}
	rp.Property, rp.Engine = p.ID, p.Engine
	rp.Signature = p.ID + ":process-crash"
	rp.Message = "the process died while this case was running (panic on a goroutine of the system under test, fatal runtime error or stack overflow)"
	rp.Write(filepath.Join(outDir, fmt.Sprintf("current-%d.json", worker)))
}

// Stack returns the current goroutine's stack (for recovered panics).
func Stack() string { return string(debug.Stack()) }

// PanicSite is panicSite for engines that recover panics themselves.
func PanicSite(stack string) string { return panicSite(stack) }

// panicSite picks the first /repo frame of a stack as a stable class name.
func panicSite(stack string) string {
	lines := strings.Split(stack, "\n")
	seenPanic := false
	for _, l := range lines {
		if strings.HasPrefix(l, "panic(") {
			seenPanic = true
			continue
		}
		if !seenPanic {
			continue
		}
		if strings.HasPrefix(l, "github.com/brimdata/super") {
			if i := strings.LastIndex(l, "("); i > 0 {
				l = l[:i]
			}
			return strings.TrimPrefix(l, "github.com/brimdata/super/")
		}
	}
	return "harness"
}

// WorkerMain is the body of every engine's single test function.
func WorkerMain(t *testing.T, props map[string]*Prop) {
	T = t
	id := os.Getenv("VERIF_PROP")
	p := props[id]
	if p == nil {
		fmt.Fprintf(os.Stderr, "unknown property %q for this engine\n", id)
		os.Exit(3)
	}
	startWatchdog()
	knownSigs = loadKnown(id)
	debug.SetGCPercent(400)
	outDir := os.Getenv("VERIF_OUT")
	if outDir == "" {
		outDir = "."
	}
	if path := os.Getenv("VERIF_REPLAY"); path != "" {
		replayMain(p, path, outDir)
		return
	}
	seed := envU64("VERIF_SEED", 1)
	tier := os.Getenv("VERIF_TIER")
	if tier == "" {
		tier = "quick"
	}
	worker := envInt("VERIF_WORKER", 0)
	workers := envInt("VERIF_WORKERS", 1)
	budget := time.Duration(envInt("VERIF_BUDGET_S", 20)) * time.Second
	maxCases := envInt("VERIF_MAX_CASES", 0)
	replayDir := os.Getenv("VERIF_REPLAY_DIR")
	if replayDir == "" {
		replayDir = outDir
	}
	known := loadKnown(id)
	rep := &workerReport{Property: id, Worker: worker, Seed: seed, Tier: tier,
		Faults: map[string]int{}, Probes: map[string]int{}, Buckets: map[string]int{},
		KnownCounts: map[string]int{}, GoVersion: runtime.Version()}
	hashes := map[uint64]struct{}{}
	const hashCap = 400000
	start := time.Now()
	var traceLog *os.File
	if path := os.Getenv("VERIF_TRACE_LOG"); path != "" {
		// Determinism self-test: one line per evaluated case with everything
		// that must be a pure function of the seed.
		traceLog, _ = os.OpenFile(path, os.O_CREATE|os.O_WRONLY|os.O_APPEND, 0o644)
		defer traceLog.Close()
	}
	account := func(o *Outcome, tape *Tape) {
		rep.Evaluations++
		Progress.Add(1)
		if traceLog != nil {
			sig := ""
			if o.Violation != nil {
				sig = o.Violation.Signature
			}
			fmt.Fprintf(traceLog, "w%d n%d draws=%016x sched=%016x steps=%d bucket=%q faults=%s probes=%s violation=%q\n",
				worker, rep.Evaluations, tape.Hash(), o.TraceHash, o.Steps, o.Bucket, sortedCounts(o.Faults), sortedCounts(o.Probes), sig)
		}
		for k, v := range o.Faults {
			rep.Faults[k] += v
		}
		for k, v := range o.Probes {
			rep.Probes[k] += v
		}
		if o.Bucket != "" {
			rep.Buckets[o.Bucket]++
		}
		rep.Steps += o.Steps
		rep.SimNanos += o.SimNanos
		if o.Nontrivial {
			rep.Nontrivial++
			h := o.CaseHash
			if h == 0 {
				h = tape.Hash()
			}
			if len(hashes) < hashCap {
				hashes[h] = struct{}{}
			} else {
				rep.HashesCapped = true
			}
		}
		if o.Desc != nil && (len(rep.Samples) < 2 || (len(rep.Samples) < 4 && o.Nontrivial && rep.Evaluations%7 == 0)) {
			rep.Samples = append(rep.Samples, o.Desc)
		}
	}
	stop := false
	handle := func(o *Outcome, caseSeed, idx uint64, rec map[string][]uint64) {
		v := o.Violation
		if v == nil {
			return
		}
		isKnown := matchKnown(known, v.Signature)
		if isKnown {
			rep.KnownCounts[v.Signature]++
			if rep.KnownCounts[v.Signature] > 1 {
				return
			}
		}
		wv := reportViolation(p, o, caseSeed, idx, rec, replayDir, !isKnown || true)
		if isKnown {
			rep.Known = append(rep.Known, wv)
		} else {
			rep.Violations = append(rep.Violations, wv)
			stop = true
		}
	}
	startN := envU64("VERIF_START_N", 0)
	memLimit := uint64(envInt("VERIF_MEM_LIMIT_MB", 2000)) << 20
	lastMemCheck := time.Now()
	// memHigh looks at the heap at most every two seconds.
	memHigh := func() bool {
		if time.Since(lastMemCheck) < 2*time.Second {
			return false
		}
		lastMemCheck = time.Now()
		var ms runtime.MemStats
		runtime.ReadMemStats(&ms)
		if ms.HeapInuse+ms.StackInuse <= memLimit {
			return false
		}
		debug.FreeOSMemory()
		runtime.ReadMemStats(&ms)
		return ms.HeapInuse+ms.StackInuse > memLimit
	}
	for n := startN; !stop; n++ {
		if time.Since(start) > budget || (maxCases > 0 && int(n) >= maxCases) {
			break
		}
		if n > startN && memHigh() {
			rep.Resume = n
			break
		}
		idx := n*uint64(workers) + uint64(worker)
		caseSeed := Mix(seed, idx)
		tape := NewTape(caseSeed)
		for _, l := range p.PinBase {
			tape.Pin(l)
		}
		noteCurrent(p, outDir, worker, &Replay{Seed: caseSeed, Generate: true, Pin: p.PinBase})
		o := safeRun(p, tape)
		rep.BaseCases++
		account(o, tape)
		rec := tape.Record()
		handle(o, caseSeed, idx, rec)
		if stop || o.Violation != nil || p.Expand == nil {
			continue
		}
		x := NewTape(Mix(caseSeed, 0xe)).Stream("expand")
		for _, sub := range p.Expand(tier, o, rec, x) {
			if time.Since(start) > budget*2 {
				break
			}
			if memHigh() {
				// The rest of this base case's fault cases are given up;
				// a fresh process carries on with the next base case.
				rep.Resume = n + 1
				stop = true
				break
			}
			st := NewReplayTape(caseSeed, sub)
			noteCurrent(p, outDir, worker, &Replay{Seed: caseSeed, Tape: sub})
			so := safeRun(p, st)
			account(so, st)
			handle(so, caseSeed, idx, st.Record())
			if stop {
				break
			}
		}
	}
	rep.WallS = time.Since(start).Seconds()
	for h := range hashes {
		rep.Hashes = append(rep.Hashes, strconv.FormatUint(h, 16))
	}
	sort.Strings(rep.Hashes)
	writeJSON(filepath.Join(outDir, fmt.Sprintf("worker-%d.json", worker)), rep)
}

func writeJSON(path string, v any) {
	b, err := json.Marshal(v)
	if err != nil {
		fmt.Fprintf(os.Stderr, "marshal %s: %v\n", path, err)
		os.Exit(3)
	}
	if err := os.WriteFile(path, b, 0o644); err != nil {
		fmt.Fprintf(os.Stderr, "write %s: %v\n", path, err)
		os.Exit(3)
	}
}

// reportViolation confirms that the recorded tape reproduces the violation,
// minimises it and writes the replay file.
func reportViolation(p *Prop, o *Outcome, caseSeed, idx uint64, rec map[string][]uint64, dir string, shrink bool) workerViolation {
	sig := o.Violation.Signature
	same := func(c map[string][]uint64) bool {
		// A candidate of the minimiser may itself kill the process.
		noteCurrent(p, os.Getenv("VERIF_OUT"), envInt("VERIF_WORKER", 0), &Replay{Seed: caseSeed, Tape: c})
		r := safeRun(p, NewReplayTape(caseSeed, c))
		return r.Violation != nil && r.Violation.Signature == sig
	}
	exact := same(rec)
	final := rec
	runs := 0
	minimised := false
	last := o
	if exact && shrink {
		maxRuns := envInt("VERIF_SHRINK_RUNS", 300)
		maxWall := time.Duration(envInt("VERIF_SHRINK_S", 45)) * time.Second
		final, runs = Shrink(rec, same, maxRuns, maxWall)
		minimised = true
		r := safeRun(p, NewReplayTape(caseSeed, final))
		if r.Violation != nil && r.Violation.Signature == sig {
			last = r
		} else {
			// Should not happen (Shrink only keeps failing tapes); fall back.
			final, minimised = rec, false
		}
	}
	rp := &Replay{Property: p.ID, Engine: p.Engine, Seed: caseSeed, Tape: final,
		Signature: sig, Message: last.Violation.Message, Trace: append(last.Violation.Trace, last.Trace...),
		TraceHash: strconv.FormatUint(last.TraceHash, 16),
		Minimised: minimised, ShrinkRuns: runs, OrigDraws: countDraws(rec), Draws: countDraws(final)}
	if last.Desc != nil {
		if b, err := json.Marshal(last.Desc); err == nil {
			rp.Description = []string{string(b)}
		}
	}
	os.MkdirAll(dir, 0o755)
	path := filepath.Join(dir, fmt.Sprintf("%s-%d-%d.json", p.ID, caseSeed, idx))
	if err := rp.Write(path); err != nil {
		fmt.Fprintf(os.Stderr, "cannot write replay %s: %v\n", path, err)
		os.Exit(3)
	}
	return workerViolation{Signature: sig, Message: firstLines(last.Violation.Message, 12), Replay: path,
		Seed: caseSeed, Index: idx, Exact: exact, Minimised: minimised}
}

func firstLines(s string, n int) string {
	ls := strings.Split(s, "\n")
	if len(ls) > n {
		ls = append(ls[:n], "...")
	}
	return strings.Join(ls, "\n")
}

func replayMain(p *Prop, path, outDir string) {
	rp, err := ReadReplay(path)
	if err != nil {
		fmt.Fprintln(os.Stderr, err)
		os.Exit(3)
	}
	tape := NewReplayTape(rp.Seed, rp.Tape)
	if rp.Generate {
		tape = NewTape(rp.Seed)
		for _, l := range rp.Pin {
			tape.Pin(l)
		}
	}
	o := safeRun(p, tape)
	rep := &workerReport{Property: p.ID, Evaluations: 1, GoVersion: runtime.Version()}
	if o.Desc != nil {
		if b, err := json.Marshal(o.Desc); err == nil {
			fmt.Printf("CASE %s\n", b)
		}
	}
	for _, l := range o.Trace {
		fmt.Printf("TRACE %s\n", l)
	}
	if o.Violation != nil {
		rep.Replayed = &workerViolation{Signature: o.Violation.Signature, Message: o.Violation.Message, Replay: path,
			Seed: rp.Seed, Exact: o.Violation.Signature == rp.Signature}
		fmt.Printf("REPLAY reproduced signature=%s expected=%s\n%s\n", o.Violation.Signature, rp.Signature, firstLines(o.Violation.Message, 40))
	} else {
		fmt.Printf("REPLAY did not reproduce (expected %s)\n", rp.Signature)
	}
	writeJSON(filepath.Join(outDir, "replay-result.json"), rep)
}
