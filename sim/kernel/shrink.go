package kernel

import (
	"sort"
	"time"
)

// Shrink minimises a failing tape.  fails must re-execute the case from the
// given recorded tape and report whether the same violation class (same
// signature) is still observed.  The result is the smallest tape found within
// the budget; it is always one on which fails returned true (or the input).
//
// Passes, in order, repeated until a fixed point or the budget runs out:
//  1. delete chunks of each stream (ddmin style, halving chunk sizes);
//  2. set single draws to zero (the simplest choice by convention);
//  3. halve / decrement single draws.
func Shrink(rec map[string][]uint64, fails func(map[string][]uint64) bool, maxRuns int, maxWall time.Duration) (map[string][]uint64, int) {
	start := time.Now()
	runs := 0
	best := cloneRec(rec)
	try := func(c map[string][]uint64) bool {
		if runs >= maxRuns || time.Since(start) > maxWall {
			return false
		}
		runs++
		if fails(c) {
			best = c
			return true
		}
		return false
	}
	over := func() bool { return runs >= maxRuns || time.Since(start) > maxWall }
	labels := func() []string {
		var ls []string
		for k := range best {
			ls = append(ls, k)
		}
		sort.Strings(ls)
		return ls
	}
	for round := 0; round < 6 && !over(); round++ {
		improved := false
		// Pass 1: chunk deletion and truncation.
		for _, l := range labels() {
			n := len(best[l])
			for size := n; size >= 1 && !over(); size /= 2 {
				for off := 0; off+size <= len(best[l]) && !over(); {
					c := cloneRec(best)
					c[l] = append(append([]uint64(nil), c[l][:off]...), c[l][off+size:]...)
					if try(c) {
						improved = true
					} else {
						off += size
					}
				}
			}
		}
		// Pass 2: zero whole chunks, then single draws.
		for _, l := range labels() {
			for size := len(best[l]); size >= 1 && !over(); size /= 2 {
				for off := 0; off+size <= len(best[l]) && !over(); off += size {
					all := true
					for _, v := range best[l][off : off+size] {
						if v != 0 {
							all = false
							break
						}
					}
					if all {
						continue
					}
					c := cloneRec(best)
					for i := off; i < off+size; i++ {
						c[l][i] = 0
					}
					if try(c) {
						improved = true
					}
				}
			}
		}
		// Pass 3: lower single draws.
		for _, l := range labels() {
			for i := 0; i < len(best[l]) && !over(); i++ {
				for best[l][i] > 0 && !over() {
					v := best[l][i]
					c := cloneRec(best)
					c[l][i] = v / 2
					if try(c) {
						improved = true
						continue
					}
					c = cloneRec(best)
					c[l][i] = v - 1
					if try(c) {
						improved = true
						continue
					}
					break
				}
			}
		}
		if !improved {
			break
		}
	}
	// Drop trailing zeros: an exhausted stream draws zeros anyway.
	for l, v := range best {
		for len(v) > 0 && v[len(v)-1] == 0 {
			v = v[:len(v)-1]
		}
		best[l] = v
	}
	return best, runs
}

func cloneRec(m map[string][]uint64) map[string][]uint64 {
	out := make(map[string][]uint64, len(m))
	for k, v := range m {
		out[k] = append([]uint64(nil), v...)
	}
	return out
}
