// Package gen generates values over the whole Zed type system from a choice
// stream, and gives the harness its own structural view of types
// (Signature) that does not rely on the repository's serialisation.
package gen

import (
	"fmt"
	"math"
	"net/netip"
	"sort"
	"strings"

	"github.com/brimdata/super"
	"github.com/brimdata/super/pkg/nano"
	"github.com/brimdata/super/zcode"
	"verifsim/kernel"
)

// Opts bounds the generator.
type Opts struct {
	MaxDepth   int  // nesting depth of types
	MaxWidth   int  // fields / elements / members
	NoNamed    bool // leave out named types
	NoTypeVals bool // leave out values of type "type"
	NoUnions   bool
	NoErrors   bool
	NoEnums    bool
	NoMaps     bool
	NoSets     bool
	NoNulls    bool
	// NullUnions allows null values of union type.  Off by default:
	// zed.Value.Under loops forever on them (DESIGN section 8, by-catch),
	// which would turn every consumer that calls Under into a watchdog exit.
	NullUnions bool
	FlatOnly   bool // primitives only
	// Names overrides the pool of record field names.
	Names []string
	// Strs overrides the pool of string values.
	Strs []string
	// TypeNames overrides the pool of names for named types.
	TypeNames []string
}

// G generates types and values in one context.
type G struct {
	S     *kernel.Stream
	Zctx  *zed.Context
	O     Opts
	names []string
	pool  []zed.Type // types generated so far (re-used to get repeats)
}

func New(s *kernel.Stream, zctx *zed.Context, o Opts) *G {
	if o.MaxDepth == 0 {
		o.MaxDepth = 3
	}
	if o.MaxWidth == 0 {
		o.MaxWidth = 4
	}
	return &G{S: s, Zctx: zctx, O: o, names: []string{"n", "port", "a b", "type", "ñ"}}
}

var prims = []zed.Type{
	zed.TypeInt64, zed.TypeString, zed.TypeUint64, zed.TypeFloat64, zed.TypeBool,
	zed.TypeInt8, zed.TypeInt16, zed.TypeInt32, zed.TypeUint8, zed.TypeUint16, zed.TypeUint32,
	zed.TypeDuration, zed.TypeTime, zed.TypeFloat16, zed.TypeFloat32,
	zed.TypeBytes, zed.TypeIP, zed.TypeNet, zed.TypeNull, zed.TypeType,
}

var fieldNames = []string{"a", "b", "c", "k", "id", "x y", "", "ts", "_path", "ünï", "0", "type", "error", "null", "s"}

// Prim draws a primitive type; index 0 (int64) is the simplest.
func (g *G) Prim() zed.Type {
	for {
		t := prims[g.S.Intn(len(prims))]
		if t == zed.TypeType && g.O.NoTypeVals {
			continue
		}
		return t
	}
}

// Type draws a type of nesting depth <= depth.
func (g *G) Type(depth int) zed.Type {
	if len(g.pool) > 0 && g.S.Chance(1, 4) {
		return g.pool[g.S.Intn(len(g.pool))]
	}
	t := g.newType(depth)
	if len(g.pool) < 64 {
		g.pool = append(g.pool, t)
	}
	return t
}

func (g *G) newType(depth int) zed.Type {
	if depth <= 0 || g.O.FlatOnly {
		return g.Prim()
	}
	// 0 primitive, 1 record, 2 array, 3 set, 4 map, 5 union, 6 enum, 7 error, 8 named
	for {
		switch g.S.Pick(4, 5, 2, 1, 1, 2, 1, 1, 2) {
		case 0:
			return g.Prim()
		case 1:
			return g.Record(depth)
		case 2:
			return g.Zctx.LookupTypeArray(g.Type(depth - 1))
		case 3:
			if g.O.NoSets {
				continue
			}
			return g.Zctx.LookupTypeSet(g.Type(depth - 1))
		case 4:
			if g.O.NoMaps {
				continue
			}
			return g.Zctx.LookupTypeMap(g.Type(depth-1), g.Type(depth-1))
		case 5:
			if g.O.NoUnions {
				continue
			}
			n := g.S.Range(2, g.O.MaxWidth)
			var ts []zed.Type
			for i := 0; i < n; i++ {
				t := g.Type(depth - 1)
				if zed.IsUnionType(t) {
					// A union directly inside a union is legal but
					// has no canonical literal form; keep one level.
					t = g.Prim()
				}
				ts = append(ts, t)
			}
			ts = zed.UniqueTypes(ts)
			if len(ts) < 2 {
				continue
			}
			return g.Zctx.LookupTypeUnion(ts)
		case 6:
			if g.O.NoEnums {
				continue
			}
			n := g.S.Range(1, g.O.MaxWidth)
			var syms []string
			seen := map[string]bool{}
			for i := 0; i < n; i++ {
				s := fieldNames[g.S.Intn(len(fieldNames))]
				if !seen[s] {
					seen[s] = true
					syms = append(syms, s)
				}
			}
			return g.Zctx.LookupTypeEnum(syms)
		case 7:
			if g.O.NoErrors {
				continue
			}
			return g.Zctx.LookupTypeError(g.Type(depth - 1))
		case 8:
			if g.O.NoNamed {
				continue
			}
			if g.O.TypeNames != nil {
				g.names = g.O.TypeNames
			}
			name := g.names[g.S.Intn(len(g.names))]
			inner := g.Type(depth - 1)
			if in, ok := inner.(*zed.TypeNamed); ok && in.Name == name && g.O.TypeNames != nil {
				// name=(name=T) has no text form (text-safe mode only).
				inner = in.Type
			}
			t, err := g.Zctx.LookupTypeNamed(name, inner)
			if err != nil {
				continue
			}
			return t
		}
	}
}

// Record draws a record type.
func (g *G) Record(depth int) *zed.TypeRecord {
	n := g.S.Range(0, g.O.MaxWidth)
	var fields []zed.Field
	seen := map[string]bool{}
	for i := 0; i < n; i++ {
		names := fieldNames
		if g.O.Names != nil {
			names = g.O.Names
		}
		name := names[g.S.Intn(len(names))]
		if seen[name] {
			continue
		}
		seen[name] = true
		fields = append(fields, zed.NewField(name, g.Type(depth-1)))
	}
	return g.Zctx.MustLookupTypeRecord(fields)
}

// Value draws a value of type typ.
func (g *G) Value(typ zed.Type) zed.Value {
	var b zcode.Builder
	g.build(&b, typ)
	it := b.Bytes().Iter()
	return zed.NewValue(typ, it.Next())
}

var int64s = []int64{0, 1, -1, 2, 10, 255, 256, -128, 1 << 31, -(1 << 31), 1<<53 - 1, 1 << 53, 1<<53 + 1, math.MaxInt64, math.MinInt64, 1<<63 - 1025}
var uint64s = []uint64{0, 1, 2, 10, 255, 256, 1 << 32, 1<<53 - 1, 1 << 53, 1<<53 + 1, 1<<63 - 1, 1 << 63, 1<<63 + 1, math.MaxUint64}
var float64s = []float64{0, 1, -1, 0.5, math.Copysign(0, -1), math.Inf(1), math.Inf(-1), math.NaN(), 1e-300, 1e300, 9007199254740992, 9007199254740993, 1.5, -2.25, math.MaxFloat64, math.SmallestNonzeroFloat64}
var strs = []string{"", "a", "b", "foo", "bar", "hello world", "ünïcödé", "\x00", "\"q\"", "a\nb", "\\", "null", "1", "true", strings.Repeat("x", 70), "é", "日本語", "*", "a.b", "A"}
var ips = []string{"0.0.0.0", "127.0.0.1", "10.1.2.3", "255.255.255.255", "::", "::1", "fe80::1", "::ffff:1.2.3.4", "2001:db8::8a2e:370:7334"}
var nets = []string{"0.0.0.0/0", "10.0.0.0/8", "192.168.1.0/24", "1.2.3.4/32", "::/0", "fe80::/10", "2001:db8::/32", "::1/128"}

func clampInt(v int64, bits uint) int64 {
	if bits == 64 {
		return v
	}
	lo, hi := -(int64(1) << (bits - 1)), int64(1)<<(bits-1)-1
	if v < lo {
		return lo
	}
	if v > hi {
		return hi
	}
	return v
}

func clampUint(v uint64, bits uint) uint64 {
	if bits == 64 {
		return v
	}
	if hi := uint64(1)<<bits - 1; v > hi {
		return hi
	}
	return v
}

func (g *G) int64() int64 {
	if g.S.Chance(1, 3) {
		return int64s[g.S.Intn(len(int64s))]
	}
	return int64(g.S.Intn(41)) - 10
}

func (g *G) uint64() uint64 {
	if g.S.Chance(1, 3) {
		return uint64s[g.S.Intn(len(uint64s))]
	}
	return uint64(g.S.Intn(31))
}

func (g *G) float64() float64 {
	if g.S.Chance(1, 2) {
		return float64s[g.S.Intn(len(float64s))]
	}
	return float64(g.S.Intn(2001)-1000) / 8
}

// Str draws a string; "" is the simplest.
func (g *G) Str() string {
	if g.O.Strs != nil {
		return g.O.Strs[g.S.Intn(len(g.O.Strs))]
	}
	if g.S.Chance(1, 10) {
		return strings.Repeat(strs[1+g.S.Intn(len(strs)-1)], g.S.Range(1, 40))
	}
	return strs[g.S.Intn(len(strs))]
}

func (g *G) build(b *zcode.Builder, typ zed.Type) {
	if !g.O.NoNulls && g.S.Chance(1, 10) {
		if _, isUnion := zed.TypeUnder(typ).(*zed.TypeUnion); !isUnion || g.O.NullUnions {
			b.Append(nil)
			return
		}
	}
	g.buildNonNull(b, typ)
}

func (g *G) buildNonNull(b *zcode.Builder, typ zed.Type) {
	switch typ := typ.(type) {
	case *zed.TypeNamed:
		g.buildNonNull(b, typ.Type)
	case *zed.TypeRecord:
		b.BeginContainer()
		for _, f := range typ.Fields {
			g.build(b, f.Type)
		}
		b.EndContainer()
	case *zed.TypeArray:
		b.BeginContainer()
		for i, n := 0, g.S.Range(0, g.O.MaxWidth); i < n; i++ {
			g.build(b, typ.Type)
		}
		b.EndContainer()
	case *zed.TypeSet:
		b.BeginContainer()
		for i, n := 0, g.S.Range(0, g.O.MaxWidth); i < n; i++ {
			g.build(b, typ.Type)
		}
		b.TransformContainer(zed.NormalizeSet)
		b.EndContainer()
	case *zed.TypeMap:
		b.BeginContainer()
		for i, n := 0, g.S.Range(0, g.O.MaxWidth); i < n; i++ {
			g.build(b, typ.KeyType)
			g.build(b, typ.ValType)
		}
		b.TransformContainer(normalizeMapDedup)
		b.EndContainer()
	case *zed.TypeUnion:
		tag := g.S.Intn(len(typ.Types))
		b.BeginContainer()
		b.Append(zed.EncodeInt(int64(tag)))
		// The value inside a union is never null-by-accident here:
		// a null union is expressed by the union itself being null.
		g.build(b, typ.Types[tag])
		b.EndContainer()
	case *zed.TypeEnum:
		b.Append(zed.EncodeUint(uint64(g.S.Intn(len(typ.Symbols)))))
	case *zed.TypeError:
		g.build(b, typ.Type)
	default:
		b.Append(g.prim(typ))
	}
}

// normalizeMapDedup sorts map entries and drops duplicate keys (keeping the
// first), so that the bytes are the canonical form readers and writers agree on.
func normalizeMapDedup(zv zcode.Bytes) zcode.Bytes {
	type kv struct{ k, v zcode.Bytes }
	var ents []kv
	for it := zv.Iter(); !it.Done(); {
		k := it.NextTagAndBody()
		v := it.NextTagAndBody()
		ents = append(ents, kv{k, v})
	}
	sort.SliceStable(ents, func(i, j int) bool { return string(ents[i].k) < string(ents[j].k) })
	var out zcode.Bytes
	for i, e := range ents {
		if i > 0 && string(ents[i-1].k) == string(e.k) {
			continue
		}
		out = append(out, e.k...)
		out = append(out, e.v...)
	}
	return zed.NormalizeMap(out)
}

func (g *G) prim(typ zed.Type) zcode.Bytes {
	switch typ {
	case zed.TypeInt8:
		return zed.EncodeInt(clampInt(g.int64(), 8))
	case zed.TypeInt16:
		return zed.EncodeInt(clampInt(g.int64(), 16))
	case zed.TypeInt32:
		return zed.EncodeInt(clampInt(g.int64(), 32))
	case zed.TypeInt64:
		return zed.EncodeInt(g.int64())
	case zed.TypeUint8:
		return zed.EncodeUint(clampUint(g.uint64(), 8))
	case zed.TypeUint16:
		return zed.EncodeUint(clampUint(g.uint64(), 16))
	case zed.TypeUint32:
		return zed.EncodeUint(clampUint(g.uint64(), 32))
	case zed.TypeUint64:
		return zed.EncodeUint(g.uint64())
	case zed.TypeDuration:
		return zed.EncodeDuration(nano.Duration(g.int64()))
	case zed.TypeTime:
		return zed.EncodeTime(nano.Ts(g.int64()))
	case zed.TypeFloat16:
		return zed.EncodeFloat16(float32(g.float64()))
	case zed.TypeFloat32:
		return zed.EncodeFloat32(float32(g.float64()))
	case zed.TypeFloat64:
		return zed.EncodeFloat64(g.float64())
	case zed.TypeBool:
		return zed.EncodeBool(g.S.Intn(2) == 1)
	case zed.TypeBytes:
		return zed.EncodeBytes([]byte(g.Str()))
	case zed.TypeString:
		return zed.EncodeString(g.Str())
	case zed.TypeIP:
		ip := ips[g.S.Intn(len(ips))]
		if g.O.TypeNames != nil && strings.HasPrefix(ip, ":") {
			// Text-safe mode (callers that need the ZSON formatter to
			// round-trip): `field:::1` is ambiguous.
			ip = "fe80::1"
		}
		return zed.EncodeIP(netip.MustParseAddr(ip))
	case zed.TypeNet:
		nt := nets[g.S.Intn(len(nets))]
		if g.O.TypeNames != nil && strings.HasPrefix(nt, ":") {
			nt = "fe80::/10"
		}
		return zed.EncodeNet(netip.MustParsePrefix(nt))
	case zed.TypeType:
		d := g.O.MaxDepth - 1
		if d > 2 {
			d = 2
		}
		return zed.EncodeTypeValue(g.Type(d))
	case zed.TypeNull:
		return nil
	}
	panic(fmt.Sprintf("gen: unhandled primitive %T", typ))
}

// Signature renders the structure of a type in the harness's own notation:
// named types are expanded in place, union members form a sorted set.  Two
// types are structurally equal iff their signatures are equal.
func Signature(t zed.Type) string {
	var sb strings.Builder
	sig(&sb, t)
	return sb.String()
}

func sig(sb *strings.Builder, t zed.Type) {
	switch t := t.(type) {
	case *zed.TypeNamed:
		fmt.Fprintf(sb, "N%q=", t.Name)
		sig(sb, t.Type)
	case *zed.TypeRecord:
		sb.WriteString("R{")
		for _, f := range t.Fields {
			fmt.Fprintf(sb, "%q:", f.Name)
			sig(sb, f.Type)
			sb.WriteByte(',')
		}
		sb.WriteByte('}')
	case *zed.TypeArray:
		sb.WriteString("A[")
		sig(sb, t.Type)
		sb.WriteByte(']')
	case *zed.TypeSet:
		sb.WriteString("S[")
		sig(sb, t.Type)
		sb.WriteByte(']')
	case *zed.TypeMap:
		sb.WriteString("M[")
		sig(sb, t.KeyType)
		sb.WriteByte(';')
		sig(sb, t.ValType)
		sb.WriteByte(']')
	case *zed.TypeUnion:
		// Member order is part of the structure as far as values are
		// concerned (tags index it); within one context it is canonical.
		var ms []string
		for _, m := range t.Types {
			ms = append(ms, Signature(m))
		}
		sb.WriteString("U(" + strings.Join(ms, "|") + ")")
	case *zed.TypeEnum:
		sb.WriteString("E<")
		for _, s := range t.Symbols {
			fmt.Fprintf(sb, "%q,", s)
		}
		sb.WriteByte('>')
	case *zed.TypeError:
		sb.WriteString("X(")
		sig(sb, t.Type)
		sb.WriteByte(')')
	default:
		fmt.Fprintf(sb, "p%d", t.ID())
	}
}
