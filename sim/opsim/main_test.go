package opsim

import (
	"testing"

	"verifsim/kernel"
)

var props = map[string]*kernel.Prop{
	"C06": {ID: "C06", Engine: "opsim", RunOne: runC06},
	"C10": {ID: "C10", Engine: "opsim", RunOne: runC10},
	"C20": {ID: "C20", Engine: "opsim", RunOne: runC20},
}

func TestSim(t *testing.T) {
	kernel.WorkerMain(t, props)
}
