package opsim

import (
	"fmt"
	"sort"
	"strings"

	"github.com/brimdata/super"
	"github.com/brimdata/super/runtime/sam/op/fuse"
	"github.com/brimdata/super/zson"
	"verifsim/kernel"
)

// C20 (partly): fuse is lossless and uniform.  Every output value has the one
// fused type (the type the fuse() aggregate reports), there is one output per
// input in input order, every non-null leaf of an input is found at the same
// path with the same type and bytes in its output (looking through the unions
// fuse introduces) and the output has no other non-null leaves; and none of
// this depends on whether the operator buffered in memory or spilled.

type c20Desc struct {
	Values int    `json:"values"`
	Shapes int    `json:"distinct_input_types"`
	Limits []int  `json:"memory_limits"`
	Fused  string `json:"fused_type,omitempty"`
}

var c20Fields = map[string][]string{
	"a": {"1", "\"s\"", "-7", "\"\"", "null(int64)"},
	"b": {"1.5", "2", "null(float64)", "true"},
	"c": {"[1,2]", "[\"x\"]", "[]", "[1,\"y\"]", "|[3]|", "[2,1,2]", "|[5,4]|", "[\"b\",\"a\",\"b\"]"},
	"r": {"{x:1}", "{x:\"s\",y:2}", "{y:3,x:4}", "{x:{z:1}}", "{}"},
	"e": {"error(\"bad\")", "1", "10.0.0.1"},
	"m": {"|{1:\"a\"}|", "|{2:\"b\",3:\"c\"}|", "5", "|{\"k\":2}|", "|{1:2,3:4}|", "|{}|"},
	"n": {"1(=myint)", "\"s\"(=mystr)", "2", "{x:1}(=myrec)", "3((int64,string))", "\"t\"((int64,string))"},
}

var c20Tops = []string{"1", "\"top\"", "null", "[1]", "{}", "2(=myint)"}

type leaf struct{ typ, bytes string }

// leaves collects the non-null leaves of v.  sets holds the paths at which the
// input has a set: fuse merges a set with an array into an array, so at those
// paths the output's container is compared as a multiset whatever its kind.
func leaves(v zed.Value, path string, into map[string]leaf, sets map[string]bool, input bool) {
	v = v.Under()
	if v.IsNull() {
		return
	}
	if rt, ok := zed.TypeUnder(v.Type()).(*zed.TypeRecord); ok {
		it := v.Bytes().Iter()
		for _, f := range rt.Fields {
			leaves(zed.NewValue(f.Type, it.Next()), path+"."+f.Name, into, sets, input)
		}
		return
	}
	if mt, ok := zed.TypeUnder(v.Type()).(*zed.TypeMap); ok {
		// Map entries are stored in key byte order, which changes when the
		// key type does: compare them as a multiset of (key, value) pairs.
		var elems []string
		for it := v.Bytes().Iter(); !it.Done(); {
			sub := map[string]leaf{}
			leaves(zed.NewValue(mt.KeyType, it.Next()), "key", sub, map[string]bool{}, true)
			leaves(zed.NewValue(mt.ValType, it.Next()), "val", sub, map[string]bool{}, true)
			var ps []string
			for p, l := range sub {
				ps = append(ps, fmt.Sprintf("%s=%s:%x", p, l.typ, l.bytes))
			}
			sort.Strings(ps)
			elems = append(elems, strings.Join(ps, ","))
		}
		sort.Strings(elems)
		into[path+"|}"] = leaf{"map", strings.Join(elems, ";")}
		return
	}
	inner := zed.InnerType(zed.TypeUnder(v.Type()))
	_, isSet := zed.TypeUnder(v.Type()).(*zed.TypeSet)
	if isSet && input {
		sets[path] = true
	}
	switch {
	case inner != nil && !isSet && !sets[path]:
		// fuse may turn [string] into [(int64,string)]: compare elements.
		i := 0
		for it := v.Bytes().Iter(); !it.Done(); i++ {
			leaves(zed.NewValue(inner, it.Next()), fmt.Sprintf("%s[%d]", path, i), into, sets, input)
		}
		into[path+"[]"] = leaf{"array-length", fmt.Sprint(i)}
		return
	case inner != nil:
		// Set elements are stored in byte order, which changes when the
		// element type does: compare them as a multiset.
		var elems []string
		for it := v.Bytes().Iter(); !it.Done(); {
			sub := map[string]leaf{}
			leaves(zed.NewValue(inner, it.Next()), "", sub, map[string]bool{}, true)
			var ps []string
			for p, l := range sub {
				ps = append(ps, fmt.Sprintf("%s=%s:%x", p, l.typ, l.bytes))
			}
			sort.Strings(ps)
			elems = append(elems, strings.Join(ps, ","))
		}
		sort.Strings(elems)
		into[path+"|]"] = leaf{"set", strings.Join(elems, ";")}
		return
	}
	into[path] = leaf{zson.FormatType(v.Type()), string(v.Bytes())}
}

func kindName(t zed.Type) string {
	switch zed.TypeUnder(t).(type) {
	case *zed.TypeRecord:
		return "record"
	case *zed.TypeArray:
		return "array"
	case *zed.TypeSet:
		return "set"
	case *zed.TypeMap:
		return "map"
	case *zed.TypeUnion:
		return "union"
	case *zed.TypeError:
		return "error"
	case *zed.TypeEnum:
		return "enum"
	}
	return "primitive"
}

// typeDiff locates the first place two types differ and names the kinds there.
func typeDiff(a, b zed.Type, path string) (string, string, string) {
	ua, ub := zed.TypeUnder(a), zed.TypeUnder(b)
	if ra, ok := ua.(*zed.TypeRecord); ok {
		if rb, ok := ub.(*zed.TypeRecord); ok && len(ra.Fields) == len(rb.Fields) {
			for i := range ra.Fields {
				if ra.Fields[i].Name != rb.Fields[i].Name {
					return path, "record", "record"
				}
				if ra.Fields[i].Type != rb.Fields[i].Type {
					return typeDiff(ra.Fields[i].Type, rb.Fields[i].Type, path+"."+ra.Fields[i].Name)
				}
			}
		}
	}
	if ia, ib := zed.InnerType(ua), zed.InnerType(ub); ia != nil && ib != nil && kindName(a) == kindName(b) && ia != ib {
		return typeDiff(ia, ib, path+"[]")
	}
	return path, kindName(a), kindName(b)
}

func runC20(tape *kernel.Tape) *kernel.Outcome {
	kn, wl := tape.Stream("knobs"), tape.Stream("workload")
	out := &kernel.Outcome{}
	desc := &c20Desc{}
	out.Desc = desc
	n := kn.Range(1, 40)
	names := []string{"a", "b", "c", "r", "e", "m", "n"}
	tops := kn.Chance(1, 4)
	// Maps of differing key or value types cannot be shaped (upstream issue
	// #2894, a known finding): only some runs have them, under their own
	// signature, so that the rest of the alphabet is judged without them.
	mapsDiffer := kn.Chance(1, 5)
	nnames := kn.Range(1, len(names))
	var texts []string
	for i := 0; i < n; i++ {
		if tops && wl.Chance(1, 4) {
			texts = append(texts, c20Tops[wl.Intn(len(c20Tops))])
			continue
		}
		var fs []string
		order := wl.Intn(2)
		for j := 0; j < nnames; j++ {
			name := names[j]
			if order == 1 {
				name = names[nnames-1-j]
			}
			if wl.Chance(1, 4) {
				continue
			}
			alts := c20Fields[name]
			if name == "m" && !mapsDiffer {
				alts = alts[:3]
			}
			fs = append(fs, name+":"+alts[wl.Intn(len(alts))])
		}
		fs = append(fs, fmt.Sprintf("u:%d", i))
		texts = append(texts, "{"+strings.Join(fs, ",")+"}")
	}
	desc.Values = n
	limits := []int{fuse.MemMaxBytes}
	for _, l := range []int{1, 40, 200} {
		if kn.Chance(1, 2) {
			limits = append(limits, l)
		}
	}
	desc.Limits = limits
	saved := fuse.MemMaxBytes
	defer func() { fuse.MemMaxBytes = saved }()
	sig := "C20:fuse"
	if mapsDiffer && nnames >= 6 {
		sig = "C20:fuse:maps-of-differing-types"
	}
	var ref []string
	for li, limit := range limits {
		fuse.MemMaxBytes = limit
		zctx := zed.NewContext()
		input := parseAll(zctx, texts)
		if li == 0 {
			types := map[zed.Type]bool{}
			for _, v := range input {
				types[v.Type()] = true
			}
			desc.Shapes = len(types)
		}
		lines, vals, err := runQuery("fuse", zctx, input, nil)
		if err != nil {
			out.Violation = kernel.Violatef(sig+":error", "fuse over %d values (memory limit %d) failed: %v", n, limit, err)
			return out
		}
		if li > 0 {
			out.Probe("spill-limit-run")
			if strings.Join(lines, "\n") != strings.Join(ref, "\n") {
				out.Violation = kernel.Violatef(sig+":depends-on-memory-limit", "fuse over %d values: output with memory limit %d differs from the in-memory output:\n only in memory: %s\n only with limit: %s",
					n, limit, clipRows(onlyIn(ref, lines), 4), clipRows(onlyIn(lines, ref), 4))
				return out
			}
			continue
		}
		ref = lines
		if len(vals) != n {
			out.Violation = kernel.Violatef(sig+":count", "fuse over %d values produced %d values", n, len(vals))
			return out
		}
		// The fuse() aggregate over the same input names the one output type.
		zctx2 := zed.NewContext()
		agg, _, err := runQuery("fuse(this)", zctx2, parseAll(zctx2, texts), nil)
		if err != nil || len(agg) != 1 {
			out.Violation = kernel.Violatef(sig+":aggregate-error", "fuse(this) over %d values: %v, %d results", n, err, len(agg))
			return out
		}
		fused := strings.TrimSuffix(strings.TrimPrefix(agg[0], "<"), ">")
		desc.Fused = fused
		var fusedType zed.Type
		for _, v := range vals {
			if zson.FormatType(v.Type()) == fused {
				fusedType = v.Type()
				break
			}
		}
		if fusedType == nil {
			out.Violation = kernel.Violatef(sig+":aggregate-type-differs", "no output of the fuse operator has the type the fuse() aggregate reports:\n operator output 0: %s\n aggregate: %s", zson.FormatType(vals[0].Type()), fused)
			return out
		}
		for i, v := range vals {
			if t := zson.FormatType(v.Type()); t != fused {
				where, fk, ok2 := typeDiff(fusedType, v.Type(), "")
				out.Violation = kernel.Violatef(sig+":not-uniform:"+fk+"-vs-"+ok2, "fuse output %d has type %s but the fused type is %s (first difference at %q: %s against %s)\n input %d: %s", i, t, fused, where, fk, ok2, i, texts[i])
				return out
			}
			if u := uOf(v); u != i && uOf(input[i]) == i {
				v := v.Under()
				// u may have become a union member; look through it.
				d := v.Deref("u")
				if d == nil || d.Under().IsNull() || int(d.Under().Int()) != i {
					out.Violation = kernel.Violatef(sig+":order", "fuse output %d is not input %d (its u field is %v)", i, i, u)
					return out
				}
			}
			want, got := map[string]leaf{}, map[string]leaf{}
			sets := map[string]bool{}
			leaves(input[i], "", want, sets, true)
			leaves(v, "", got, sets, false)
			var diffs []string
			for p, w := range want {
				g, ok := got[p]
				switch {
				case !ok:
					diffs = append(diffs, fmt.Sprintf("input leaf %s (%s) is missing or null in the output", p, w.typ))
				case g != w:
					diffs = append(diffs, fmt.Sprintf("leaf %s: input %s %x, output %s %x", p, w.typ, w.bytes, g.typ, g.bytes))
				}
			}
			for p, g := range got {
				if _, ok := want[p]; !ok {
					diffs = append(diffs, fmt.Sprintf("output has a non-null leaf %s (%s) the input does not have", p, g.typ))
				}
			}
			if len(diffs) > 0 {
				sort.Strings(diffs)
				out.Violation = kernel.Violatef(sig+":lossy", "fuse changed the data of input %d:\n input:  %s\n output: %s\n %s", i, texts[i], lines[i], strings.Join(diffs, "\n "))
				return out
			}
		}
	}
	out.Bucket = "fuse"
	out.Nontrivial = desc.Shapes > 1
	return out
}
