// Package opsim drives single operators (sort, merge, summarize, join, fuse)
// with their memory/table knobs drawn per run and, where an operator has
// parent goroutines, with those scheduled by the simulator.
package opsim

import (
	"context"
	"fmt"
	"io"
	"io/fs"
	"path"
	"runtime/debug"
	"strings"
	"sync"
	"testing"
	"testing/synctest"
	"time"

	"github.com/brimdata/super"
	"github.com/brimdata/super/compiler"
	"github.com/brimdata/super/pkg/simhook"
	"github.com/brimdata/super/pkg/storage"
	"github.com/brimdata/super/runtime"
	"github.com/brimdata/super/zio"
	"github.com/brimdata/super/zson"
	"verifsim/kernel"
)

type sliceReader struct {
	vals []zed.Value
	i    int
}

func (r *sliceReader) Read() (*zed.Value, error) {
	if r.i >= len(r.vals) {
		return nil, nil
	}
	v := &r.vals[r.i]
	r.i++
	return v, nil
}

func parseAll(zctx *zed.Context, texts []string) []zed.Value {
	vals := make([]zed.Value, 0, len(texts))
	for _, t := range texts {
		v, err := zson.ParseValue(zctx, t)
		if err != nil {
			panic(fmt.Sprintf("harness: cannot parse %s: %v", t, err))
		}
		vals = append(vals, v)
	}
	return vals
}

// memEngine serves named in-memory files to the file-system compiler (join's
// second input).
type memEngine struct{ files map[string][]byte }

func (e *memEngine) Get(_ context.Context, u *storage.URI) (storage.Reader, error) {
	b, ok := e.files[path.Base(u.Path)]
	if !ok {
		return nil, fmt.Errorf("%s: %w", u, fs.ErrNotExist)
	}
	return storage.NewBytesReader(b), nil
}
func (e *memEngine) Put(context.Context, *storage.URI) (io.WriteCloser, error) {
	return nil, storage.ErrNotSupported
}
func (e *memEngine) PutIfNotExists(context.Context, *storage.URI, []byte) error {
	return storage.ErrNotSupported
}
func (e *memEngine) Delete(context.Context, *storage.URI) error { return storage.ErrNotSupported }
func (e *memEngine) DeleteByPrefix(context.Context, *storage.URI) error {
	return storage.ErrNotSupported
}
func (e *memEngine) Exists(_ context.Context, u *storage.URI) (bool, error) {
	_, ok := e.files[path.Base(u.Path)]
	return ok, nil
}
func (e *memEngine) Size(_ context.Context, u *storage.URI) (int64, error) {
	return int64(len(e.files[path.Base(u.Path)])), nil
}
func (e *memEngine) List(context.Context, *storage.URI) ([]storage.Info, error) { return nil, nil }

// runQuery compiles program over the given input values and returns the
// output as ZSON lines.
func runQuery(program string, zctx *zed.Context, input []zed.Value, files map[string][]byte) ([]string, []zed.Value, error) {
	var comp runtime.Compiler = compiler.NewCompiler()
	if files != nil {
		comp = compiler.NewFileSystemCompiler(&memEngine{files})
	}
	seq, sset, err := comp.Parse(program)
	if err != nil {
		return nil, nil, fmt.Errorf("parse: %w", err)
	}
	q, err := runtime.CompileQuery(context.Background(), zctx, comp, seq, sset, []zio.Reader{&sliceReader{vals: input}})
	if err != nil {
		return nil, nil, fmt.Errorf("compile: %w", err)
	}
	defer q.Pull(true)
	var lines []string
	var vals []zed.Value
	for {
		b, err := q.Pull(false)
		if err != nil {
			return lines, vals, err
		}
		if b == nil {
			return lines, vals, nil
		}
		for _, v := range b.Values() {
			lines = append(lines, zson.FormatValue(v))
			vals = append(vals, v.Copy())
		}
		b.Unref()
	}
}

var hookMu sync.Mutex

type simRun struct {
	Leaked   bool
	Deadlock string
	Panic    string
	Steps    int
	SimNanos int64
	Hash     uint64
	Hooks    map[string]int
	Policy   string
	Preempt  int
}

// inBubble runs body as the single task of a synctest bubble; merge/combine
// parents and join pullers that reach a simhook point are scheduled.
func inBubble(tape *kernel.Tape, sites string, body func()) (res simRun) {
	res.Hooks = map[string]int{}
	func() {
		defer func() {
			if r := recover(); r != nil {
				msg := fmt.Sprint(r)
				switch {
				case strings.Contains(msg, "blocked goroutines remain"):
					res.Leaked = true
				case strings.Contains(msg, "deadlock"):
					res.Deadlock = msg
				default:
					panic(r)
				}
			}
		}()
		synctest.Test(kernel.T, func(t *testing.T) {
			start := time.Now()
			s := kernel.NewSched(tape.Stream("schedule"), 100)
			res.Policy = s.PolicyName()
			simhook.Handler = func(site string, key uint64) {
				if !strings.HasPrefix(site, sites) {
					return
				}
				hookMu.Lock()
				res.Hooks[site]++
				hookMu.Unlock()
				s.Yield(fmt.Sprintf("%s#%d", site, key), site, key)
			}
			defer func() { simhook.Handler = nil }()
			s.Go(func() {
				defer func() {
					if r := recover(); r != nil {
						res.Panic = fmt.Sprintf("%v\n%s", r, debug.Stack())
					}
				}()
				body()
			})
			s.Run()
			res.Steps, res.SimNanos, res.Hash, res.Preempt = s.Steps(), int64(time.Since(start)), s.TraceHash(), s.Preemptions
		})
	}()
	return res
}

func onlyIn(a, b []string) []string {
	cnt := map[string]int{}
	for _, x := range b {
		cnt[x]++
	}
	var out []string
	for _, x := range a {
		if cnt[x] > 0 {
			cnt[x]--
			continue
		}
		out = append(out, x)
	}
	return out
}

func clipRows(a []string, n int) string {
	if len(a) == 0 {
		return "(nothing)"
	}
	if len(a) > n {
		return strings.Join(a[:n], " ") + fmt.Sprintf(" ... (%d rows)", len(a))
	}
	return strings.Join(a, " ")
}

func uOf(v zed.Value) int {
	f := v.Deref("u")
	if f == nil || f.IsNull() || f.Type().ID() != zed.IDInt64 {
		return -1
	}
	return int(f.Int())
}

// fieldOf returns the named top-level field, null or not (Value.Deref returns
// nil for a null field).
func fieldOf(v zed.Value, name string) (zed.Value, bool) {
	rt := zed.TypeRecordOf(v.Type())
	if rt == nil || v.IsNull() {
		return zed.Value{}, false
	}
	it := v.Bytes().Iter()
	for _, f := range rt.Fields {
		b := it.Next()
		if f.Name == name {
			return zed.NewValue(f.Type, b), true
		}
	}
	return zed.Value{}, false
}
