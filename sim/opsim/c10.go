package opsim

import (
	"fmt"
	"sort"
	"strings"

	"github.com/brimdata/super"
	"github.com/brimdata/super/runtime/sam/op/groupby"
	"github.com/brimdata/super/zson"
	"verifsim/kernel"
)

// C10 (partly): group-by emits one row per distinct key (same type and value)
// holding the aggregate over exactly the values with that key, whatever the
// input order and whether or not the key table spills; join emits exactly the
// pairs a nested-loop join would.  Decided here: count, integer sum/min/max,
// union (as a set) against a naive reference, plus invariance under input
// permutation and table limit; inner/left/right/anti join over integer keys.

type c10Desc struct {
	Mode    string `json:"mode"`
	Program string `json:"program"`
	Values  int    `json:"values"`
	Limits  []int  `json:"table_limits,omitempty"`
	Groups  int    `json:"groups,omitempty"`
	Left    int    `json:"left_rows,omitempty"`
	Right   int    `json:"right_rows,omitempty"`
	Sorted  string `json:"inputs_sorted,omitempty"`
}

func runC10(tape *kernel.Tape) *kernel.Outcome {
	if tape.Stream("knobs").Chance(1, 3) {
		return c10Join(tape)
	}
	return c10GroupBy(tape)
}

var c10Keys = []string{"1", "2", "3", "1.", "2.5", "1(uint64)", "\"a\"", "\"b\"", "\"1\"", "null(int64)", "null(string)", "true", "10.0.0.1", ""}

var c10Mixed = []string{"1", "2", "\"s\"", "\"t\"", "2.5", "1", "10.0.0.1", "true"}

// setElems renders the elements of a set value, looking through a union
// element type, sorted.
func setElems(d zed.Value) []string {
	var out []string
	inner := zed.InnerType(zed.TypeUnder(d.Type()))
	if inner == nil || d.IsNull() {
		return out
	}
	for it := d.Bytes().Iter(); !it.Done(); {
		out = append(out, zson.FormatValue(zed.NewValue(inner, it.Next()).Under()))
	}
	sort.Strings(out)
	return out
}

func c10GroupBy(tape *kernel.Tape) *kernel.Outcome {
	kn, wl := tape.Stream("knobs"), tape.Stream("workload")
	out := &kernel.Outcome{}
	desc := &c10Desc{Mode: "group-by"}
	out.Desc = desc
	n := kn.Range(1, 80)
	if kn.Chance(1, 6) {
		n = kn.Range(80, 300)
	}
	nkeys := kn.Range(2, len(c10Keys))
	twoKeys := kn.Chance(1, 3)
	var texts []string
	for i := 0; i < n; i++ {
		k := c10Keys[wl.Intn(nkeys)]
		var fs []string
		if k != "" {
			fs = append(fs, "k:"+k)
		}
		fs = append(fs, fmt.Sprintf("g:%d", wl.Intn(3)), fmt.Sprintf("v:%d", wl.Intn(9)-3), fmt.Sprintf("u:%d", i))
		// w: values of several types, so that union() partials are sets of a union type.
		fs = append(fs, "w:"+c10Mixed[wl.Intn(len(c10Mixed))])
		texts = append(texts, "{"+strings.Join(fs, ",")+"}")
	}
	desc.Values = n
	by := "k"
	if twoKeys {
		by = "k, g"
	}
	where := ""
	if kn.Chance(1, 4) {
		where = " where v > 0"
	}
	program := fmt.Sprintf("n:=count()%s, s:=sum(v), lo:=min(v), hi:=max(v), vs:=union(v), ws:=union(w) by %s", where, by)
	desc.Program = program
	limits := []int{groupby.DefaultLimit}
	for _, l := range []int{1, 2, 3, 7} {
		if kn.Chance(1, 2) {
			limits = append(limits, l)
		}
	}
	desc.Limits = limits
	saved := groupby.DefaultLimit
	defer func() { groupby.DefaultLimit = saved }()
	// ---- naive reference over the harness's own view of the input ----
	type agg struct {
		n, s, lo, hi int64
		any          bool
		vs           map[int64]bool
		ws           map[string]bool
		key          string
	}
	ref := map[string]*agg{}
	zctx0 := zed.NewContext()
	in0 := parseAll(zctx0, texts)
	keyText := func(v zed.Value, f string) string {
		d, ok := fieldOf(v, f)
		if !ok {
			return `error("missing")`
		}
		return zson.FormatValue(d)
	}
	for _, v := range in0 {
		key := "k=" + keyText(v, "k")
		if twoKeys {
			key += " g=" + keyText(v, "g")
		}
		a := ref[key]
		if a == nil {
			a = &agg{vs: map[int64]bool{}, ws: map[string]bool{}, key: key}
			ref[key] = a
		}
		val := v.Deref("v").Int()
		if where == "" || val > 0 {
			a.n++
		}
		a.s += val
		if !a.any || val < a.lo {
			a.lo = val
		}
		if !a.any || val > a.hi {
			a.hi = val
		}
		a.any = true
		a.vs[val] = true
		if w, ok := fieldOf(v, "w"); ok {
			a.ws[zson.FormatValue(w)] = true
		}
	}
	desc.Groups = len(ref)
	render := func(a *agg) string {
		var vs []int
		for x := range a.vs {
			vs = append(vs, int(x))
		}
		sort.Ints(vs)
		var ws []string
		for x := range a.ws {
			ws = append(ws, x)
		}
		sort.Strings(ws)
		return fmt.Sprintf("%s n=%d s=%d lo=%d hi=%d vs=%v ws=%v", a.key, a.n, a.s, a.lo, a.hi, vs, ws)
	}
	var want []string
	for _, a := range ref {
		want = append(want, render(a))
	}
	sort.Strings(want)
	sig := "C10:group-by"
	for li, limit := range limits {
		for perm := 0; perm < 2; perm++ {
			if perm == 1 && !kn.Chance(1, 2) {
				continue
			}
			groupby.DefaultLimit = limit
			zctx := zed.NewContext()
			input := parseAll(zctx, texts)
			if perm == 1 {
				for i := len(input) - 1; i > 0; i-- {
					j := wl.Intn(i + 1)
					input[i], input[j] = input[j], input[i]
				}
				out.Probe("permuted-input")
			}
			_, vals, err := runQuery(program, zctx, input, nil)
			if err != nil {
				out.Violation = kernel.Violatef(sig+":error", "%q over %d values (table limit %d) failed: %v", program, n, limit, err)
				return out
			}
			var got []string
			for _, v := range vals {
				key := "k=" + keyText(v, "k")
				if twoKeys {
					key += " g=" + keyText(v, "g")
				}
				a := &agg{key: key, vs: map[int64]bool{}, ws: map[string]bool{}}
				if d, ok := fieldOf(v, "ws"); ok {
					for _, e := range setElems(d) {
						a.ws[e] = true
					}
				}
				intOf := func(f string) int64 {
					d := v.Deref(f)
					if d == nil || d.IsNull() {
						return 0
					}
					if zed.IsUnsigned(d.Type().ID()) {
						return int64(d.Uint())
					}
					return d.Int()
				}
				a.n, a.s, a.lo, a.hi = intOf("n"), intOf("s"), intOf("lo"), intOf("hi")
				if d := v.Deref("vs"); d != nil && !d.IsNull() {
					for it := d.Bytes().Iter(); !it.Done(); {
						a.vs[zed.DecodeInt(it.Next())] = true
					}
				}
				got = append(got, render(a))
			}
			sort.Strings(got)
			if strings.Join(got, "\n") != strings.Join(want, "\n") {
				class := "differs-from-naive-reference"
				if li > 0 {
					class = "depends-on-table-limit"
				}
				out.Violation = kernel.Violatef(sig+":"+class, "%q over %d values (%d groups, table limit %d, permuted=%v):\n rows only in the naive reference: %s\n rows only in the output: %s\n input: %s",
					program, n, len(ref), limit, perm == 1, clipRows(onlyIn(want, got), 6), clipRows(onlyIn(got, want), 6), clipRows(texts, 10))
				return out
			}
			if li > 0 {
				out.Probe("spill-limit-run")
			}
		}
	}
	out.Bucket = "group-by"
	out.Nontrivial = len(limits) > 1 && len(ref) > 1
	return out
}

func c10Join(tape *kernel.Tape) *kernel.Outcome {
	kn, wl := tape.Stream("knobs"), tape.Stream("workload")
	out := &kernel.Outcome{}
	desc := &c10Desc{Mode: "join"}
	out.Desc = desc
	rng := []int{4, 2, 12}[kn.Intn(3)]
	type row struct {
		key int
		flt bool // the key is written as a float64 (1. joins with 1)
		id  string
	}
	mixed := kn.Chance(1, 2)
	nulls := kn.Chance(1, 3)
	keyText := func(r row) string {
		if r.key < 0 {
			return "null(int64)" // joins with null (and only with null)
		}
		if r.flt {
			return fmt.Sprintf("%d.", r.key)
		}
		return fmt.Sprint(r.key)
	}
	gen := func(prefix string, n int) []row {
		var rs []row
		for i := 0; i < n; i++ {
			r := row{wl.Intn(rng), mixed && wl.Chance(1, 3), fmt.Sprintf("%s%d", prefix, i)}
			if nulls && wl.Chance(1, 6) {
				r.key, r.flt = -1, false
			}
			rs = append(rs, r)
		}
		return rs
	}
	left, right := gen("l", kn.Range(0, 25)), gen("r", kn.Range(0, 25))
	sortedness := []string{"neither", "both", "left only"}[kn.Intn(3)]
	if sortedness != "neither" {
		sort.SliceStable(left, func(i, j int) bool { return left[i].key < left[j].key })
	}
	if sortedness == "both" {
		sort.SliceStable(right, func(i, j int) bool { return right[i].key < right[j].key })
	}
	desc.Left, desc.Right, desc.Sorted = len(left), len(right), sortedness
	kind := []string{"inner", "left", "right", "anti"}[kn.Intn(4)]
	var ltexts []string
	for _, r := range left {
		ltexts = append(ltexts, fmt.Sprintf("{a:%s,sa:%q}", keyText(r), r.id))
	}
	var rb strings.Builder
	for _, r := range right {
		fmt.Fprintf(&rb, "{b:%s,sb:%q}\n", keyText(r), r.id)
	}
	// Explicit sorts in front of either input tell the compiler the inputs'
	// order (ascending or descending), which selects the join's comparator.
	pre := []string{"", "", "sort a | ", "sort -r a | "}[kn.Intn(4)]
	post := []string{"", "", " | sort b", " | sort -r b"}[kn.Intn(4)]
	program := fmt.Sprintf("%s%s join (file B.zson%s) on a=b hit:=sb", pre, kind, post)
	if kind == "right" {
		program = fmt.Sprintf("%sright join (file B.zson%s) on a=b hit:=sa", pre, post)
	}
	desc.Program = program
	// ---- nested-loop reference ----
	var want []string
	switch kind {
	case "inner", "left", "anti":
		for _, l := range left {
			matched := false
			for _, r := range right {
				if l.key == r.key {
					matched = true
					if kind != "anti" {
						want = append(want, fmt.Sprintf("{a:%s,sa:%q,hit:%q}", keyText(l), l.id, r.id))
					}
				}
			}
			if !matched && kind != "inner" {
				want = append(want, fmt.Sprintf("{a:%s,sa:%q}", keyText(l), l.id))
			}
		}
	case "right":
		for _, r := range right {
			matched := false
			for _, l := range left {
				if l.key == r.key {
					matched = true
					want = append(want, fmt.Sprintf("{b:%s,sb:%q,hit:%q}", keyText(r), r.id, l.id))
				}
			}
			if !matched {
				want = append(want, fmt.Sprintf("{b:%s,sb:%q}", keyText(r), r.id))
			}
		}
	}
	zctx := zed.NewContext()
	got, _, err := runQuery(program, zctx, parseAll(zctx, ltexts), map[string][]byte{"B.zson": []byte(rb.String())})
	sig := "C10:join:" + kind
	if err != nil {
		out.Violation = kernel.Violatef(sig+":error", "%q (%d left rows, %d right rows) failed: %v", program, len(left), len(right), err)
		return out
	}
	sort.Strings(want)
	sort.Strings(got)
	if strings.Join(want, "\n") != strings.Join(got, "\n") {
		out.Violation = kernel.Violatef(sig+":differs-from-nested-loop", "%q over %d left and %d right rows (inputs sorted: %s):\n pairs only in the nested-loop reference: %s\n rows only in the output: %s",
			program, len(left), len(right), sortedness, clipRows(onlyIn(want, got), 6), clipRows(onlyIn(got, want), 6))
		return out
	}
	out.Bucket = "join:" + kind
	out.Nontrivial = len(left) > 0 && len(right) > 0
	return out
}
