package opsim

import (
	"context"
	"fmt"
	"sort"
	"strings"

	"github.com/brimdata/super"
	"github.com/brimdata/super/order"
	"github.com/brimdata/super/pkg/field"
	"github.com/brimdata/super/runtime/sam/expr"
	"github.com/brimdata/super/runtime/sam/op/merge"
	sortop "github.com/brimdata/super/runtime/sam/op/sort"
	"github.com/brimdata/super/zbuf"
	"verifsim/kernel"
)

// C06, operator half: the sort operator outputs a stable, sorted permutation
// of its input that does not depend on the memory limit (0..k spilled runs),
// and a k-way merge of sorted inputs emits every value exactly once, sorted,
// whatever order its parents deliver in.

type keyVal struct {
	kind int // 0 int, 1 string, 2 float, 3 null, 4 missing
	i    int64
	s    string
	f    float64
}

func (k keyVal) zson() string {
	switch k.kind {
	case 0:
		return fmt.Sprint(k.i)
	case 1:
		return fmt.Sprintf("%q", k.s)
	case 2:
		t := fmt.Sprint(k.f)
		if !strings.ContainsAny(t, ".eIN") {
			t += "."
		}
		return t
	default:
		return "null(int64)"
	}
}

func genKey(s *kernel.Stream, mixed bool, rng int) keyVal {
	if !mixed {
		return keyVal{kind: 0, i: int64(s.Intn(rng))}
	}
	switch s.Pick(8, 3, 2, 2, 1) {
	case 0:
		return keyVal{kind: 0, i: int64(s.Intn(rng)) - int64(rng/3)}
	case 1:
		return keyVal{kind: 1, s: []string{"", "a", "b", "ab", "B", "10", "9"}[s.Intn(7)]}
	case 2:
		return keyVal{kind: 2, f: float64(s.Intn(2*rng)-rng) / 2}
	case 3:
		return keyVal{kind: 3}
	default:
		return keyVal{kind: 4}
	}
}

type c06Rec struct {
	k1, k2 keyVal
	u      int
}

func (r c06Rec) zson() string {
	var fs []string
	if r.k1.kind != 4 {
		fs = append(fs, "k1:"+r.k1.zson())
	}
	if r.k2.kind != 4 {
		fs = append(fs, "k2:"+r.k2.zson())
	}
	fs = append(fs, fmt.Sprintf("u:%d", r.u))
	return "{" + strings.Join(fs, ",") + "}"
}

type c06Desc struct {
	Mode    string `json:"mode"`
	Program string `json:"program,omitempty"`
	Values  int    `json:"values"`
	Mixed   bool   `json:"mixed_key_types"`
	Limits  []int  `json:"memory_limits,omitempty"`
	Runs    int    `json:"merge_inputs,omitempty"`
	Policy  string `json:"sched_policy,omitempty"`
}

func runC06(tape *kernel.Tape) *kernel.Outcome {
	kn := tape.Stream("knobs")
	if kn.Chance(1, 3) {
		return c06Merge(tape)
	}
	return c06Sort(tape)
}

func c06Sort(tape *kernel.Tape) *kernel.Outcome {
	kn, wl := tape.Stream("knobs"), tape.Stream("workload")
	out := &kernel.Outcome{}
	desc := &c06Desc{Mode: "sort"}
	out.Desc = desc
	mixed := kn.Chance(1, 3)
	desc.Mixed = mixed
	n := kn.Range(1, 80)
	if kn.Chance(1, 6) {
		n = kn.Range(80, 400)
	}
	rng := []int{5, 2, 50}[kn.Intn(3)]
	recs := make([]c06Rec, n)
	texts := make([]string, n)
	for i := range recs {
		recs[i] = c06Rec{k1: genKey(wl, mixed, rng), k2: genKey(wl, mixed, rng), u: i}
		texts[i] = recs[i].zson()
	}
	desc.Values = n
	reverse := kn.Chance(1, 3)
	nulls := []string{"", " -nulls first", " -nulls last"}[kn.Intn(3)]
	keys := []string{"k1", "k1, k2", "k2, k1"}[kn.Intn(3)]
	program := "sort"
	if reverse {
		program += " -r"
	}
	program += nulls + " " + keys
	desc.Program = program
	limits := []int{sortop.MemMaxBytes}
	for _, l := range []int{1, 64, 400, 3000} {
		if kn.Chance(1, 2) {
			limits = append(limits, l)
		}
	}
	desc.Limits = limits
	saved := sortop.MemMaxBytes
	defer func() { sortop.MemMaxBytes = saved }()
	// Spill files go to os.TempDir(), which the driver points at the run's
	// private directory under /dev/shm (TMPDIR).
	var ref []string
	var refU []int
	sig := "C06:sort"
	for li, limit := range limits {
		sortop.MemMaxBytes = limit
		zctx := zed.NewContext()
		lines, vals, err := runQuery(program, zctx, parseAll(zctx, texts), nil)
		if err != nil {
			out.Violation = kernel.Violatef(sig+":error", "%q over %d values with memory limit %d failed: %v", program, n, limit, err)
			return out
		}
		us := make([]int, len(vals))
		for i, v := range vals {
			us[i] = uOf(v)
		}
		if li == 0 {
			ref, refU = lines, us
			// Permutation.
			seen := make([]int, n)
			for _, u := range us {
				if u < 0 || u >= n {
					out.Violation = kernel.Violatef(sig+":not-a-permutation", "%q: output holds a value that was not in the input: u=%d", program, u)
					return out
				}
				seen[u]++
			}
			for u, c := range seen {
				if c != 1 {
					out.Violation = kernel.Violatef(sig+":not-a-permutation", "%q over %d values: input value u=%d occurs %d times in the output (%d output values)", program, n, u, c, len(us))
					return out
				}
			}
			if v := c06CheckSorted(recs, us, keys, reverse, nulls, program); v != nil {
				out.Violation = v
				return out
			}
			continue
		}
		out.Probe("spill-limit-run")
		if strings.Join(lines, "\n") != strings.Join(ref, "\n") {
			at := 0
			for at < len(lines) && at < len(ref) && lines[at] == ref[at] {
				at++
			}
			out.Violation = kernel.Violatef(sig+":depends-on-memory-limit", "%q over %d values: output with memory limit %d differs from the in-memory output at position %d:\n in memory: u=%v\n limit %d:  u=%v%s",
				program, n, limit, at, clipInts(refU, at, 12), limit, clipInts(us, at, 12), c06Keys(recs, refU, us, at))
			return out
		}
	}
	out.Nontrivial = len(limits) > 1 && n > 1
	out.Bucket = "sort"
	return out
}

func c06Keys(recs []c06Rec, a, b []int, at int) string {
	if at >= len(a) || at >= len(b) {
		return ""
	}
	return fmt.Sprintf("\n u=%d is %s, u=%d is %s", a[at], recs[a[at]].zson(), b[at], recs[b[at]].zson())
}

func clipInts(a []int, at, n int) []int {
	lo := at - 2
	if lo < 0 {
		lo = 0
	}
	hi := lo + n
	if hi > len(a) {
		hi = len(a)
	}
	return a[lo:hi]
}

// cmpKey orders two keys when the harness can define the order itself: same
// kind, or null/missing against anything (position given by nullsFirst).
func cmpKey(a, b keyVal) (int, bool) {
	an, bn := a.kind >= 3, b.kind >= 3
	if an || bn {
		return 0, false // handled by the caller (null placement)
	}
	if a.kind != b.kind {
		return 0, false
	}
	switch a.kind {
	case 0:
		switch {
		case a.i < b.i:
			return -1, true
		case a.i > b.i:
			return 1, true
		}
		return 0, true
	case 1:
		return strings.Compare(a.s, b.s), true
	default:
		switch {
		case a.f < b.f:
			return -1, true
		case a.f > b.f:
			return 1, true
		}
		return 0, true
	}
}

// c06CheckSorted: adjacent outputs respect the first key where the harness can
// define its order, and values whose key tuples are identical keep input order.
func c06CheckSorted(recs []c06Rec, us []int, keys string, reverse bool, nulls, program string) *kernel.Violation {
	first := func(r c06Rec) keyVal {
		if strings.HasPrefix(keys, "k2") {
			return r.k2
		}
		return r.k1
	}
	same := func(a, b keyVal) bool {
		if a.kind >= 3 && b.kind >= 3 {
			return true // null and missing sort alike
		}
		return a == b
	}
	for i := 1; i < len(us); i++ {
		a, b := recs[us[i-1]], recs[us[i]]
		ka, kb := first(a), first(b)
		if c, ok := cmpKey(ka, kb); ok {
			if reverse {
				c = -c
			}
			if c > 0 {
				return kernel.Violatef("C06:sort:not-sorted", "%q: output positions %d,%d are out of order: u=%d key %s then u=%d key %s", program, i-1, i, a.u, ka.zson(), b.u, kb.zson())
			}
		}
		if nulls != "" {
			an, bn := ka.kind >= 3, kb.kind >= 3
			if an != bn {
				nullFirst := strings.Contains(nulls, "first")
				if (an && !nullFirst) || (bn && nullFirst) {
					return kernel.Violatef("C06:sort:null-placement", "%q: null/missing key at output position %d is not placed %s", program, map[bool]int{true: i - 1, false: i}[an], strings.TrimSpace(nulls))
				}
			}
		}
		// Stability: identical key tuples keep input (u) order.
		if same(a.k1, b.k1) && same(a.k2, b.k2) && a.k1.kind == b.k1.kind && a.k2.kind == b.k2.kind && a.u > b.u {
			return kernel.Violatef("C06:sort:not-stable", "%q: values u=%d and u=%d have identical keys (%s,%s) but come out in reversed input order", program, a.u, b.u, a.k1.zson(), a.k2.zson())
		}
	}
	return nil
}

type arrayPuller struct {
	batches [][]zed.Value
	i       int
}

func (p *arrayPuller) Pull(done bool) (zbuf.Batch, error) {
	if done || p.i >= len(p.batches) {
		p.i = len(p.batches)
		return nil, nil
	}
	b := p.batches[p.i]
	p.i++
	return zbuf.NewArray(b), nil
}

func c06Merge(tape *kernel.Tape) *kernel.Outcome {
	kn, wl := tape.Stream("knobs"), tape.Stream("workload")
	out := &kernel.Outcome{}
	desc := &c06Desc{Mode: "merge"}
	out.Desc = desc
	k := kn.Range(2, 6)
	desc.Runs = k
	rng := []int{6, 3, 40}[kn.Intn(3)]
	desc.Mixed = false
	zctx := zed.NewContext()
	var parents []zbuf.Puller
	var recs []c06Rec
	perParent := map[int]int{} // u -> parent
	for p := 0; p < k; p++ {
		n := wl.Range(0, 30)
		var run []c06Rec
		for i := 0; i < n; i++ {
			r := c06Rec{k1: genKey(wl, false, rng), k2: keyVal{kind: 4}, u: len(recs) + i}
			run = append(run, r)
		}
		sort.SliceStable(run, func(i, j int) bool { return run[i].k1.i < run[j].k1.i })
		// u follows the sorted order inside a run so that "order within a
		// parent is preserved" is checkable.
		var texts []string
		for i := range run {
			run[i].u = len(recs) + i
			perParent[run[i].u] = p
			texts = append(texts, run[i].zson())
		}
		recs = append(recs, run...)
		vals := parseAll(zctx, texts)
		ap := &arrayPuller{}
		for len(vals) > 0 {
			bs := wl.Range(1, 8)
			if bs > len(vals) {
				bs = len(vals)
			}
			ap.batches = append(ap.batches, vals[:bs])
			vals = vals[bs:]
		}
		parents = append(parents, ap)
	}
	desc.Values = len(recs)
	cmp := expr.NewComparator(true, expr.NewSortEvaluator(expr.NewDottedExpr(zctx, field.Path{"k1"}), order.Asc)).Compare
	var got []int
	var runErr error
	res := inBubble(tape, "merge.", func() {
		ctx, cancel := context.WithCancel(context.Background())
		defer cancel()
		m := merge.New(ctx, parents, cmp, expr.Resetters{})
		for {
			b, err := m.Pull(false)
			if err != nil {
				runErr = err
				return
			}
			if b == nil {
				return
			}
			for _, v := range b.Values() {
				got = append(got, uOf(v))
			}
			b.Unref()
		}
	})
	desc.Policy = res.Policy
	out.Steps, out.SimNanos, out.TraceHash = res.Steps, res.SimNanos, res.Hash
	for h, c := range res.Hooks {
		out.ProbeN("hook:"+h, c)
	}
	if res.Preempt > 0 {
		out.ProbeN("preemptions", res.Preempt)
	}
	out.Bucket = "merge"
	out.Nontrivial = len(recs) > 1
	sig := "C06:merge"
	switch {
	case res.Panic != "":
		out.Violation = &kernel.Violation{Signature: sig + ":panic:" + kernel.PanicSite(res.Panic), Message: res.Panic}
		return out
	case res.Deadlock != "":
		out.Violation = kernel.Violatef(sig+":deadlock", "merge of %d sorted inputs blocked forever: %s", k, res.Deadlock)
		return out
	case runErr != nil:
		out.Violation = kernel.Violatef(sig+":error", "merge of %d sorted inputs failed: %v", k, runErr)
		return out
	}
	seen := make([]int, len(recs))
	for _, u := range got {
		if u < 0 || u >= len(recs) {
			out.Violation = kernel.Violatef(sig+":not-exactly-once", "merge emitted a value that is in no input: u=%d", u)
			return out
		}
		seen[u]++
	}
	for u, c := range seen {
		if c != 1 {
			out.Violation = kernel.Violatef(sig+":not-exactly-once", "merge of %d sorted inputs (%d values): input value u=%d (input %d, key %d) was emitted %d times", k, len(recs), u, perParent[u], recs[u].k1.i, c)
			return out
		}
	}
	lastOf := map[int]int{}
	for i := 1; i < len(got); i++ {
		if recs[got[i-1]].k1.i > recs[got[i]].k1.i {
			out.Violation = kernel.Violatef(sig+":not-sorted", "merge of %d sorted inputs: output positions %d,%d out of order: key %d (input %d) then key %d (input %d)",
				k, i-1, i, recs[got[i-1]].k1.i, perParent[got[i-1]], recs[got[i]].k1.i, perParent[got[i]])
			return out
		}
	}
	for _, u := range got {
		p := perParent[u]
		if last, ok := lastOf[p]; ok && last > u {
			out.Violation = kernel.Violatef(sig+":input-order-not-preserved", "merge reordered two values of input %d: u=%d came after u=%d", p, u, last)
			return out
		}
		lastOf[p] = u
	}
	if res.Leaked {
		out.Probe("goroutines-left-blocked")
	}
	return out
}
