#!/bin/bash
# Quick tier of every claimed property, one after the other; rewrites evidence/<id>.json.
cd "$(dirname "$0")/.."
ids=${@:-$(python3 -c "import sys; sys.path.insert(0,'lib'); import props; print(' '.join(sorted(props.PROPS)))")}
rc=0
for id in $ids; do
  ./check "$id" --tier quick > /tmp/quick-$id.log 2>&1
  r=$?
  [ $r -ne 0 ] && rc=1
  echo "$id exit=$r $(grep -a 'tier=quick' /tmp/quick-$id.log | tail -1 | cut -c1-220) violations=$(grep -ac '^VIOLATION' /tmp/quick-$id.log) known=$(grep -ac '^KNOWN-FINDING' /tmp/quick-$id.log)"
done
exit $rc
