#!/bin/bash
# Re-runs a check against seeded changes applied to /repo itself:
#   lib/seedrecheck.sh <budget> <seed-id>...
# For each: git -C /repo apply, ./check <property of meta.json> --no-evidence,
# git -C /repo checkout -- . ; one result line per seed is appended to the
# seed's verification.log and printed.
cd "$(dirname "$0")/.."
budget=$1; shift
for id in "$@"; do
  d=seeded/$id
  prop=$(python3 -c "import json;print(json.load(open('$d/meta.json'))['property'])")
  if [ -n "$(git -C /repo status --short)" ]; then echo "/repo not clean"; exit 2; fi
  if ! git -C /repo apply "$PWD/$d/patch.diff"; then echo "$id: patch does not apply"; continue; fi
  ./check "$prop" --budget "$budget" --no-evidence > /tmp/seedrecheck.log 2>&1
  rc=$?
  git -C /repo checkout -- .
  sigs=$(grep -a '^  signature' /tmp/seedrecheck.log | sort | uniq -c | sort -rn | head -3 | awk '{print $4" x"$1}' | tr '\n' ' ')
  line="re-check against /repo itself ($(git -C /repo log --format=%h -1), ./check $prop --budget $budget): exit=$rc $sigs"
  echo "$line" >> "$d/verification.log"
  echo "$id: $line"
done
git -C /repo status --short | head -3
