#!/bin/bash
# Runs the thorough tier of every claimed property, one after the other (each
# uses all cores), with a different VERIF_SEED per pass.  Usage:
#   lib/thorough_all.sh [seed] [ids...]
# Output: one summary line per property on stdout, full logs under $OUT.
cd "$(dirname "$0")/.."
seed=${1:-1}; shift
ids=${@:-$(python3 -c "import sys; sys.path.insert(0,'lib'); import props; print(' '.join(sorted(props.PROPS)))")}
OUT=${OUT:-/dev/shm/thorough-$seed}
mkdir -p "$OUT"
for id in $ids; do
  start=$(date +%s)
  ./check "$id" --tier thorough --seed "$seed" ${WORKERS:+--workers $WORKERS} > "$OUT/$id.log" 2>&1
  rc=$?
  echo "$id seed=$seed exit=$rc $(( $(date +%s) - start ))s $(grep -a 'tier=thorough' "$OUT/$id.log" | tail -1 | cut -c1-200) violations=$(grep -ac '^VIOLATION' "$OUT/$id.log") known=$(grep -ac '^KNOWN-FINDING' "$OUT/$id.log")"
done
echo THOROUGH DONE
