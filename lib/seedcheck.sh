#!/bin/bash
# Verify a seeded breaking change produced by a sub-agent and run a check
# against it.
#
#   seedcheck.sh <seed-id> <dir-with-patch.diff+demo_test.go> <demo-dest-rel-path> "<demo go test args>" <property> [check budget]
#
# 1. fresh scratch worktree of /repo HEAD; apply patch; build; full test suite
#    (must pass); place demo; demo must FAIL; revert patch; demo must PASS.
# 2. apply the patch to /repo, run ./check <property>, revert /repo.
# Results are appended to /verif/seeded/<seed-id>/verification.log
set -u
id=$1; src=$2; demodest=$3; demoargs=$4; prop=$5; budget=${6:-60}
export GOFLAGS=-mod=mod GOPROXY=off GOSUMDB=off
dst=/verif/seeded/$id
mkdir -p "$dst"
cp "$src/patch.diff" "$dst/patch.diff"
cp "$src/demo_test.go" "$dst/demo_test.go"
[ -f "$src/README.md" ] && cp "$src/README.md" "$dst/AGENT_README.md"
log="$dst/verification.log"
: > "$log"
wt=/tmp/seedwt-$id
git -C /repo worktree remove --force "$wt" >/dev/null 2>&1
git -C /repo worktree add -q "$wt" HEAD || { echo "worktree failed" | tee -a "$log"; exit 2; }
cleanup() { git -C /repo worktree remove --force "$wt" >/dev/null 2>&1; rm -rf "$wt"; }
trap cleanup EXIT
cd "$wt"
if ! git apply "$dst/patch.diff" 2>>"$log"; then echo "PATCH does not apply to current HEAD" | tee -a "$log"; exit 3; fi
echo "== build with patch" | tee -a "$log"
if go build ./... >>"$log" 2>&1; then echo "build: ok" | tee -a "$log"; else echo "build: FAILED" | tee -a "$log"; exit 3; fi
echo "== full test suite with patch (demo not present)" | tee -a "$log"
if go test -vet=off -count=1 ./... > "$dst/.suite.log" 2>&1; then echo "suite: ok ($(grep -c '^ok' "$dst/.suite.log") packages ok)" | tee -a "$log"; else echo "suite: FAILED" | tee -a "$log"; grep -a "^FAIL\|^--- FAIL" "$dst/.suite.log" | head -20 | tee -a "$log"; fi
rm -f "$dst/.suite.log"
mkdir -p "$(dirname "$demodest")"
cp "$dst/demo_test.go" "$demodest"
echo "== demo with patch (must fail)" | tee -a "$log"
if go test -count=1 $demoargs > "$dst/.demo1.log" 2>&1; then echo "demo with patch: PASSED (unexpected)" | tee -a "$log"; else echo "demo with patch: failed as expected" | tee -a "$log"; grep -a "^\s*--- FAIL\|Error\|want\|got" "$dst/.demo1.log" | head -8 >> "$log"; fi
git apply -R "$dst/patch.diff"
echo "== demo without patch (must pass)" | tee -a "$log"
if go test -count=1 $demoargs > "$dst/.demo2.log" 2>&1; then echo "demo without patch: passed as expected" | tee -a "$log"; else echo "demo without patch: FAILED (unexpected)" | tee -a "$log"; tail -15 "$dst/.demo2.log" | tee -a "$log"; fi
rm -f "$dst/.demo1.log" "$dst/.demo2.log"
cd /verif
echo "== ./check $prop against the change (budget ${budget}s)" | tee -a "$log"
if ! git -C /repo apply "$dst/patch.diff"; then echo "cannot apply to /repo" | tee -a "$log"; exit 3; fi
./check "$prop" --budget "$budget" --no-evidence > "$dst/.check.log" 2>&1
rc=$?
git -C /repo checkout -- .
echo "check exit=$rc" | tee -a "$log"
grep -a "^VIOLATION\|^  signature\|^KNOWN\|tier=" "$dst/.check.log" | cut -c1-300 | head -12 | tee -a "$log"
rm -f "$dst/.check.log"
git -C /repo status --short | head -3
