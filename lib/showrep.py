"""Summarise replay files by violation signature (development aid)."""
import glob
import json
import sys

pat = sys.argv[1] if len(sys.argv) > 1 else ''
seen = {}
for f in sorted(glob.glob('/verif/replays/%s*.json' % pat)):
    r = json.load(open(f))
    seen.setdefault(r['signature'], []).append((r['draws'], f, r))
for s, v in sorted(seen.items()):
    d, f, r = min(v, key=lambda x: x[0])
    print('##', s, 'x%d' % len(v), 'draws', r['draws'], '/', r['orig_draws'], 'shrink', r['shrink_runs'], f)
    print('   ', r['message'][:1500])
    print('   ', (r.get('description') or [''])[0][:1200])
