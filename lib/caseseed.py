#!/usr/bin/env python3
"""caseseed.py <property> <VERIF_SEED> <case index> [out.json]: writes a replay
file that re-generates the case with that index (index = n*workers + worker),
for running one case of a batch on its own: ./check <id> --replay out.json"""
import json, sys
sys.path.insert(0, __file__.rsplit("/", 1)[0])
import props
M = (1 << 64) - 1
def nxt(s):
    s = (s + 0x9e3779b97f4a7c15) & M
    z = s
    z = ((z ^ (z >> 30)) * 0xbf58476d1ce4e5b9) & M
    z = ((z ^ (z >> 27)) * 0x94d049bb133111eb) & M
    return s, z ^ (z >> 31)
def mix(seed, i):
    s = seed ^ (((i + 1) * 0xd6e8feb86659fd93) & M)
    s, _ = nxt(s)
    s, z = nxt(s)
    return z
pid, seed, idx = sys.argv[1], int(sys.argv[2]), int(sys.argv[3])
out = sys.argv[4] if len(sys.argv) > 4 else "/dev/stdout"
rep = dict(property=pid, engine=props.PROPS[pid]["engine"], mode="generate", seed=mix(seed, idx), generate=True,
           pin=(["faults"] if pid in ("C17", "C18") else []), signature="", message="")
json.dump(rep, open(out, "w"))
