#!/usr/bin/env python3
"""Determinism self-test: the same VERIF_SEED must give the same executions.

For each property: run the quick tier with a fixed number of cases per worker
several times (different GOMAXPROCS where the property allows it, different
process ids, different scratch directories) and compare the per-case trace
lines (draws consumed, schedule hash, scheduler steps, bucket, faults fired,
probes hit, violation signature).  Any difference is printed and the exit
status is 1.

  lib/determinism.py [--cases N] [--seeds 1,2] [--repeat 3] [ids...]
"""
import argparse, os, subprocess, sys, tempfile
sys.path.insert(0, os.path.dirname(os.path.abspath(__file__)))
import props

VERIF = os.path.dirname(os.path.dirname(os.path.abspath(__file__)))

def run(pid, seed, cases, workers, gomaxprocs, out):
    env = dict(os.environ)
    if gomaxprocs:
        env["VERIF_GOMAXPROCS"] = str(gomaxprocs)
    cmd = [os.path.join(VERIF, "check"), pid, "--tier", "quick", "--no-evidence", "--seed", str(seed),
           "--max-cases", str(cases), "--workers", str(workers), "--budget", "3600", "--selftest-trace", out]
    p = subprocess.run(cmd, env=env, stdout=subprocess.PIPE, stderr=subprocess.STDOUT, text=True)
    return p.returncode, p.stdout

def main():
    ap = argparse.ArgumentParser()
    ap.add_argument("ids", nargs="*")
    ap.add_argument("--cases", type=int, default=25)
    ap.add_argument("--seeds", default="1,7")
    ap.add_argument("--repeat", type=int, default=3)
    ap.add_argument("--workers", type=int, default=4)
    a = ap.parse_args()
    ids = a.ids or sorted(props.PROPS)
    bad = 0
    for pid in ids:
        prop = props.PROPS[pid]
        # Properties pinned to one P are only run that way; the others are
        # also run with 1, 4 and 16.
        gmps = [None] if prop.get("gomaxprocs") == 1 else [None, 1, 4, 16]
        for seed in [int(x) for x in a.seeds.split(",")]:
            ref = None
            runs = 0
            for g in gmps:
                for r in range(a.repeat if g is None else 1):
                    with tempfile.NamedTemporaryFile(prefix="det-", suffix=".log", delete=False) as f:
                        path = f.name
                    rc, out = run(pid, seed, a.cases, a.workers, g, path)
                    lines = sorted(open(path).read().splitlines()) if os.path.exists(path) else []
                    os.unlink(path)
                    runs += 1
                    if rc not in (0, 1) or not lines:
                        print("%s seed=%d gomaxprocs=%s: check exited %d without a trace\n%s" % (pid, seed, g, rc, out[-1500:]))
                        bad += 1
                        continue
                    if ref is None:
                        ref = lines
                        continue
                    if lines != ref:
                        bad += 1
                        diff = [(x, y) for x, y in zip(ref, lines) if x != y][:3]
                        print("NONDETERMINISTIC %s seed=%d gomaxprocs=%s run %d: %d of %d case lines differ (or %d vs %d lines)" % (
                            pid, seed, g, r, sum(1 for x, y in zip(ref, lines) if x != y), len(ref), len(ref), len(lines)))
                        for x, y in diff:
                            print("   first:", x[:400]); print("   now:  ", y[:400])
            print("%s seed=%d: %d runs x %d cases compared%s" % (pid, seed, runs, len(ref or []), "" if not bad else "  (differences so far: %d)" % bad))
            sys.stdout.flush()
    sys.exit(1 if bad else 0)

main()
