"""Registry of claimed properties: engine, budgets, evidence texts."""

REAL_STREAM = ["zio/* readers and writers", "zngio scanner/parser/workers", "zcode", "zed.Context/Mapper", "pkg/bufwriter",
               "lake/data object and vector writers", "vng writer"]
STUB_STREAM = ["output sinks and input readers (simulator-owned io.Reader/io.WriteCloser/storage.Engine)",
               "goroutine choice at hook points (seeded scheduler)", "clock (synctest bubble)"]

PROPS = {
    "C18": dict(
        engine="streamsim", level="fault_enumeration",
        budget_s=dict(quick=40, thorough=1500),
        rule=("base case = (format, writer options, bufwriter on/off, generated values) drawn from the seed and run fault-free; "
              "then every sink write call k of that run (quick: <=16 sampled k incl. first and last; thorough: <=400) is failed in 4 ways "
              "(one-shot, sticky, short one-shot, short sticky). Non-trivial = a fault actually fired inside the writer (or, for the "
              "fault-free base, the writer made >1 sink write); distinct = distinct hash of all draws (values, options, k, mode)."),
        real=REAL_STREAM, stub=STUB_STREAM,
        assumptions=["a sink failure is an error return from io.Writer.Write (n < len(p) with non-nil error for short writes); Close never fails",
                     "values are generated so that the writer accepts them fault-free; inputs a writer rejects by its own rules are counted and skipped",
                     "table/text/lake output has no reader; completeness there is only checked by line count (text)"],
    ),
}
