"""Registry of claimed properties: engine, budgets, evidence texts."""

REAL_STREAM = ["zio/* readers and writers", "zngio scanner/parser/workers", "zcode", "zed.Context/Mapper", "pkg/bufwriter",
               "lake/data object and vector writers", "vng writer"]
STUB_STREAM = ["output sinks and input readers (simulator-owned io.Reader/io.WriteCloser/storage.Engine)",
               "goroutine choice at hook points (seeded scheduler)", "clock (synctest bubble)"]

REAL_LAKE = ["lake (root, pools, branches, commits, journal, data, writer)", "runtime/exec (compact, delete)", "compiler + optimizer + kernel",
             "runtime/sam operators incl. meta lister/slicer/deleter", "zngio", "vcache/vam where the planner vectorises"]
STUB_LAKE = ["storage.Engine = simdisk (in-memory; objstore model with atomic put and put-if-absent, or file model with visible partial writes and create-then-fill put-if-absent)",
             "clock (synctest bubble)", "KSUID randomness (seeded)", "goroutine choice at storage/hook points (seeded scheduler)"]

PROPS = {
    "C11": dict(
        engine="streamsim", level="exploration", gomaxprocs=1, hang_is_violation=True,
        env={"GODEBUG": "asyncpreemptoff=1", "VERIF_WATCHDOG_S": "60"},
        budget_s=dict(quick=45, thorough=1500),
        rule=("one run = a valid encoding (zng with drawn options, zson, zjson, vng, json, csv, tsv, zeek) of 1..40 generated values, then one damage drawn from the fault stream (none, truncation at any offset, "
              "1..4 bit flips biased to the first 48 bytes, a splice of three slices, 1..6 inserted bytes), optionally a read error injected at an offset and/or cancellation after k values; read through "
              "anyio with the format given or auto-detected, threads 1/2/4, readmax 64Ki/1Mi/default, validation on/off, 1..n-byte fragments; zng decode workers scheduled by the simulator. Oracle: the consumer "
              "gets values or an error and Close returns; no panic (a panic on a reader goroutine kills the worker process and is reported through the case file), no deadlock, no goroutine left blocked "
              "(synctest), total allocation <= 512 MiB, <= 200000 values, and with validation on every zng/vng value passes the harness's own structural walk. A worker that makes no progress for 60 s "
              "is reported as a hang. Non-trivial = some damage or fault was applied; distinct = distinct hash of all draws."),
        real=REAL_STREAM + ["zio/anyio auto-detection", "csvio, jsonio, zeekio, zjsonio, zsonio, vngio readers"], stub=STUB_STREAM,
        assumptions=["only byte readers are covered; arbitrary query text into the compiler is a pure function of its input (no stream, schedule or fault) and is not claimed",
                     "mutation is seeded, not coverage-guided (that half of the quantifier is fuzzing)",
                     "the structural walk checks container framing, field counts, union tags and map parity, not leaf values"],
    ),
    "C04": dict(
        engine="streamsim", level="exploration", gomaxprocs=1, env={"GODEBUG": "asyncpreemptoff=1"},
        budget_s=dict(quick=45, thorough=1500),
        rule=("one run = 1..60 generated values (records over a small field-name and string alphabet, nested records inside arrays/maps/unions, named types, type values) rendered as ZSON, ZJSON, VNG "
              "and ZNG (compression, frame threshold 1..default, end-of-stream markers, reader threads 1/2/3/8, read size, validation, 1..n-byte fragments drawn) and one program from a grammar over "
              "keyword/glob/regexp searches (keywords include field names, which a search also matches), field==literal, literal in field, is(), and/or/not, typeof/typeunder/nameof/fields/len/kind, cut, count() by <type function>; each encoding is run through "
              "runtime.CompileQuery and compared with the run over the values themselves (a reader handing out the generated values, no encoding): sequence, or multiset for aggregations; error vs no error. Encodings that do not reproduce the values themselves (codec round trip) "
              "are skipped for that run and counted. The multi-thread ZNG scanner's parser and workers are scheduled by the simulator. Non-trivial = at least one other encoding compared and a "
              "non-empty reference result; distinct = distinct hash of all draws."),
        real=REAL_STREAM + ["compiler, optimizer (filter push-down into the scanner), kernel buffer filter, sam runtime"], stub=STUB_STREAM,
        assumptions=["the reference input is the un-encoded value sequence; a format that does not round-trip a value set is excluded for that run (that is C01/C02/C03's subject)",
                     "programs outside the grammar are not covered"],
    ),
    "C01": dict(
        engine="streamsim", level="exploration", gomaxprocs=1, env={"GODEBUG": "asyncpreemptoff=1"},
        budget_s=dict(quick=45, thorough=1500),
        rule=("one run = 1..4 independently written ZNG streams (own writer, own type context, compression on/off, frame threshold 1..2^20 biased small, end-of-stream markers every 1..15 values) "
              "of generated values over the whole type system (depth <= 3, named types incl. re-bound names, unions incl. null unions, enums, errors, maps, sets, type values, boundary primitives), "
              "concatenated and read back with threads in {1,2,3,4,8,16}, read size/max and validation drawn, through a reader that delivers 1..n-byte fragments, via Read or via the scanner's Pull; "
              "with threads > 1 the parser and the decode workers park at simhook points and the seeded scheduler decides who proceeds. Oracle: same length, order, structural type signature and value bytes; "
              "no error, no panic, no goroutine left behind. Non-trivial = at least one value and (several streams or several threads or fragmented delivery); distinct = distinct hash of all draws."),
        real=REAL_STREAM, stub=STUB_STREAM,
        assumptions=["GOMAXPROCS=1 and async preemption off so that arrival order at hook points is reproducible; who proceeds is the scheduler's choice",
                     "interleavings are explored at hook-point granularity: parser before dispatching a frame, worker after taking a frame, worker before delivering its batch",
                     "the structural signature treats union member order as part of the type (it is canonical within a context)"],
    ),
    "C14": dict(
        engine="lakesim", level="exploration",
        budget_s=dict(quick=60, thorough=1500),
        rule=("one run = one seeded sequential history (<=14 ops over load/delete/delete-where/compact/vector add+del/vacuum) on one pool with drawn key path, "
              "order, object threshold, seek stride, key-type mix, parallelism and storage model; after every op the state is read cold and compared with the model. "
              "Non-trivial = at least one op ran and (a non-default knob or >2 ops); distinct = distinct hash of all draws."),
        real=REAL_LAKE, stub=STUB_LAKE,
        assumptions=["fault-free and uncontended: one client, no crash, no I/O error (faulty configurations are C12/C17)",
                     "cross-type key order is only checked for consistency (repeatable scans), same-type and null/missing order are checked against the harness's own comparison",
                     "predicate truth for delete-where comes from the repository's expression evaluator on in-memory values (no lake, no pruner)",
                     "the exhaustive-short-histories half of the quantifier is enumeration, not simulation, and is not claimed"],
    ),
    "C08": dict(
        engine="lakesim", level="exploration", gomaxprocs=1, env={"GODEBUG": "asyncpreemptoff=1"},
        budget_s=dict(quick=60, thorough=1500),
        rule=("one run = a seeded pool (many small objects with overlapping and disjoint key ranges, null/missing/mixed-type keys, asc/desc, small thresholds and strides) and 1..5 programs from a "
              "grammar (filters, explicit sort, head/tail after sort, count/sum/min/max/union by key, cut); each program runs at parallelism 1 (reference) and at a drawn subset of {2,3,8,16} "
              "with the scan legs and merge/combine parents parked at simhook points and released by the seeded scheduler (uniform in 2/3 of the runs). Comparison: identical sequence for "
              "programs that end in an explicit total order, identical multiset plus identical key sequence for pool-key-ordered scans, identical multiset otherwise. "
              "Non-trivial = at least one program compared and at least one scheduling step taken; distinct = distinct hash of all draws (pool, programs, schedule)."),
        real=REAL_LAKE, stub=STUB_LAKE,
        assumptions=["GOMAXPROCS=1, async preemption off and GC off during a run, so that the order in which legs arrive at a hook point is reproducible; which leg proceeds is the scheduler's choice",
                     "aggregates are restricted to exactly comparable ones (count, integer sum/min/max, union as a set)",
                     "schedules are explored at hook-point granularity (legs asking for the next partition, merge/combine parents handing over a batch)"],
    ),
    "C09": dict(
        engine="lakesim", level="exploration", gomaxprocs=1, env={"GODEBUG": "asyncpreemptoff=1"},
        budget_s=dict(quick=60, thorough=1500),
        rule=("one run = a seeded pool whose records carry a field f with a drawn type mix (few/constant/many distinct strings, ints, uint+float+int mixed, several types, nulls, absent), 1..4 loads "
              "(some beyond 256 distinct values), then the auto-vectorised shapes count() by <field> and sum(<field>), bare and behind a filter (d > 0 | sum(d), <key> >= 2 | sum(u), ...), at parallelism 1 and one of 2, 3, evaluated with no vector copies, with some objects "
              "vectorised (planner must fall back), with all vectorised, and then either after removing the vectors again or after the history went on (a vectorised object deleted, new data loaded without vectors; compared with the run after all remaining vectors are removed); results compared as multisets, an error only with vectors is a violation. "
              "Non-trivial = the all-vectors configuration was reached; distinct = distinct hash of all draws."),
        real=REAL_LAKE, stub=STUB_LAKE,
        assumptions=["only the lake half of the property is decided (adding/removing vector copies never changes a result); agreement of the two runtimes over the whole vectorisable operator subset is a pure differential without schedule or fault and is not claimed",
                     "if the sequential plan itself disagrees between parallelism 1 and 2 the run is discarded here (that is C08's finding)"],
    ),
    "C16": dict(
        engine="lakesim", level="exploration",
        budget_s=dict(quick=60, thorough=1500),
        rule=("one run = a seeded pool built to make pruning bite (thresholds 1..400 bytes => up to tens of objects, strides 1..40 bytes => many seek entries, duplicate boundary keys, null/missing/"
              "cross-type keys, asc/desc, optional compaction) and 2..10 filters from a grammar over {key op literal, literal op key} x {==,!=,<,<=,>,>=}, and/or/not to depth 3, mixed with non-key "
              "predicates, literals drawn from the keys present +-1; each filter is run as a lake query (a fifth as delete-where) and compared with the same filter applied to the branch's values "
              "without a lake. Non-trivial = at least one filter compared; reach probes count runs where objects were skipped / byte ranges narrowed; distinct = distinct hash of all draws."),
        real=REAL_LAKE, stub=STUB_LAKE,
        assumptions=["the reference is the repository's own filter evaluation on in-memory values (no pool, no pruner): the statement's 'full scan followed by the same filter'",
                     "the exhaustive small-domain enumeration of pruner(min,max) in the quantifier is enumeration, not simulation, and is not claimed"],
    ),
    "C12": dict(
        engine="lakesim", level="exploration",
        budget_s=dict(quick=90, thorough=1800),
        rule=("one run = a seeded sequential setup (0..14 commits on main, maybe a child branch; crosses the journal's >10-entries snapshot rule in a fifth of the runs), then 2..4 clients "
              "(separate lake handles and caches on one storage; object-store stub or the real file engine) each issuing 1..3 operations out of load / delete / delete-where / compact / "
              "vector add / query / merge / revert / create,rename,drop pool / create,drop branch / list pools (a fifth of the runs draw mostly pool-level operations), GOMAXPROCS drawn from {1,2,4}, interleaved at every metadata storage operation by the seeded scheduler "
              "(policies: bounded preemption budget <= 6, uniform, stall-one-client, changing priorities), then one sequential load per client. Oracle: porcupine linearizability of the "
              "recorded history (stamps = scheduler step numbers) against a sequential lake model whose commit effects are read post hoc from the immutable commit objects; "
              "cold read-only replay of every branch after every completed operation (only at instants with no metadata put open); chain/name invariants at the end. "
              "Non-trivial = at least one preemption happened; distinct = distinct hash of all draws (workload and schedule)."),
        real=REAL_LAKE, stub=STUB_LAKE,
        assumptions=["an operation may fail with an error at any time while other clients are active, provided it then leaves no trace; progress is only demanded in the sequential final phase",
                     "object stores are modelled WITH conditional put; the shipped S3 engine lacks it and the repository's fallback is documented as racy (#2686): out of scope",
                     "interleavings are explored at storage-operation granularity (and the file engine's put-if-absent hook), not between arbitrary statements",
                     "porcupine results of Unknown (20 s timeout) are counted, never reported as violation or success"],
    ),
    "C13": dict(
        engine="lakesim", level="exploration",
        budget_s=dict(quick=60, thorough=1500),
        rule=("(a) one run = one seeded sequential history (<=10 ops, half of the runs with branch create/drop, merge, revert); after every op every earlier acknowledged "
              "commit whose objects have not been vacuumed is re-read from a cold handle by commit id and must give the content recorded when it was acknowledged. "
              "(b) reader/writer interleavings: see mode C13b. Non-trivial = at least one earlier commit was re-queried after a later op or a reader overlapped a writer; "
              "distinct = distinct hash of all draws."),
        real=REAL_LAKE, stub=STUB_LAKE,
        assumptions=["content of a commit = the model content at acknowledgement (verified then against the objects, see C14)",
                     "commits whose objects were explicitly vacuumed carry no obligation, as the statement says"],
    ),
    "C15": dict(
        engine="lakesim", level="exploration",
        budget_s=dict(quick=60, thorough=1500),
        rule=("one run = one seeded history (<=16 ops) over main + up to 3 branches created at any commit (incl. empty), with loads/deletes/delete-where/compactions on any branch, "
              "merges in any direction and reverts of any acknowledged commit; object-level model (parent U child-adds-since-ancestor - child-deletes-since-ancestor; "
              "revert = inverse filtered by the tip); failed merge/revert must leave every branch untouched; all branches re-read cold after every op. "
              "Non-trivial = at least one merge or revert was attempted; distinct = distinct hash of all draws."),
        real=REAL_LAKE, stub=STUB_LAKE,
        assumptions=["any merge may fail with an error provided the parent is left untouched (the statement allows conflict errors); successes are counted in reach_probes",
                     "object contents are verified when first seen (C14 checks), the merge/revert model itself is at object level"],
    ),
    "C17": dict(
        engine="lakesim", level="fault_enumeration",
        budget_s=dict(quick=90, thorough=1800),
        rule=("base case = seeded history (0..7 ops, both storage models, knobs as C14) + a victim operation (init; pool create/rename/drop; load, delete, delete-where, compact, "
              "vector add/del, vacuum, branch create/drop, merge, revert) run fault-free to count the victim's mutating storage steps N (put-create, every write call, put-close, "
              "put-if-absent incl. its create/fill gap on the file model, delete, delete-by-prefix); then for every k in 1..N (quick: <=40 sampled when N>40; thorough: <=400) the whole "
              "case is re-run with a fail-stop at step k (file model: additionally with the fatal write call torn to 1..7 eighths; a quarter of the k also with a second crash inside "
              "the follow-up). After each crash: reopen cold, each branch all-or-nothing against the model, other branches and pool table intact, fixed follow-up workload succeeds. "
              "Non-trivial = the crash fired inside the victim; distinct = distinct hash of all draws (history, victim, k, tear, second crash)."),
        real=REAL_LAKE, stub=STUB_LAKE,
        assumptions=["a crash is a fail-stop of the process: every later storage call of that process fails; completed write calls are durable (power loss / lost page cache is not modelled: the repository never syncs)",
                     "orphan files (data objects, commit objects, pool directories written before the commit point) are allowed",
                     "crash points are the mutating storage steps; a crash before a read equals a crash after the preceding mutation"],
    ),
    "C18": dict(
        engine="streamsim", level="fault_enumeration",
        budget_s=dict(quick=40, thorough=1500),
        rule=("base case = (format, writer options, bufwriter on/off, generated values) drawn from the seed and run fault-free; "
              "then every sink write call k of that run (quick: <=16 sampled k incl. first and last; thorough: <=400) is failed in 4 ways "
              "(one-shot, sticky, short one-shot, short sticky). Non-trivial = a fault actually fired inside the writer (or, for the "
              "fault-free base, the writer made >1 sink write); distinct = distinct hash of all draws (values, options, k, mode)."),
        real=REAL_STREAM, stub=STUB_STREAM,
        assumptions=["a sink failure is an error return from io.Writer.Write (n < len(p) with non-nil error for short writes); Close never fails",
                     "values are generated so that the writer accepts them fault-free; inputs a writer rejects by its own rules are counted and skipped",
                     "table/text/lake output has no reader; completeness there is only checked by line count (text)"],
    ),
    "C05": dict(
        engine="ctxsim", level="exploration", gomaxprocs=1, env={"GODEBUG": "asyncpreemptoff=1"},
        budget_s=dict(quick=30, thorough=1200),
        rule=("one run = 2..5 goroutines sharing one zed.Context, each with 1..6 operations drawn from: build a described type through the Lookup* calls (union members in a drawn permutation), "
              "LookupByValue of a foreign context's type value (the caller's slice is overwritten afterwards, as a recycled buffer would be), TranslateType (and back through a third context), "
              "LookupTypeValue + decoding it in a fresh context, DecodeTypeValue of a record type whose first field defines a name and whose second refers to it, and rebinding a type name. Types come "
              "from a small pool (so the same structure is reached along different routes) over all kinds to depth 3, three type names, four field names. Goroutines are parked at every operation and "
              "at the two places where the context drops its lock mid-operation (simhook points zed.context.*), and released by the seeded scheduler. Oracle (the harness's own structural signature, "
              "no use of the repository's serialisation): the returned type has the requested structure; one type object per structure; a type object never reads differently later; the type value "
              "of a type never changes and equals the one a context with a different history produces. Non-trivial = more than one operation ran; distinct = distinct schedule trace hash."),
        real=["zed.Context (all Lookup*, LookupByValue, TranslateType, LookupTypeValue, DecodeTypeValue, EncodeTypeValue)", "type constructors and CompareTypes/union normalisation"],
        stub=["goroutine choice at operation boundaries and at the context's two unlock windows (seeded scheduler)", "clock (synctest bubble)"],
        assumptions=["interleavings at operation and unlock-window granularity: the bodies of the Lookup* calls run under the context's mutex and are atomic to each other by construction",
                     "depth <= 3, alphabets of 3 type names and 4 field names"],
    ),
    "C06": dict(
        engine="opsim", level="exploration", gomaxprocs=2,
        budget_s=dict(quick=30, thorough=1200),
        rule=("two kinds of run. sort: 1..400 records with one or two keys (ints; or a mix of ints, floats, strings, null and missing), program 'sort [-r] [-nulls first|last] k1[,k2]', executed once "
              "with the default memory limit and again with sort.MemMaxBytes drawn from {1,64,400,3000} bytes (0..k spilled runs merged from temp files); oracle: output is a permutation of the input, "
              "adjacent values respect the harness's own order on the first key where it is defined (same kind), nulls are placed as asked, equal key tuples keep input order, and the output is byte-identical "
              "for every memory limit. merge: 2..6 sorted inputs of 0..30 values in batches of 1..8 through merge.New, the parent goroutines parked at their simhook points and released by the seeded "
              "scheduler; oracle: every value exactly once, sorted, order within an input preserved, no deadlock or panic. Non-trivial = more than one value and (sort) at least one lowered limit."),
        real=["compiler + runtime.CompileQuery", "sam/op/sort incl. spill.MergeSort over real temp files", "sam/op/merge", "sam/expr comparators"],
        stub=["input (in-memory value slices)", "merge parent goroutine choice (seeded scheduler)", "clock (synctest bubble, merge runs)"],
        assumptions=["the order between keys of different kinds is not judged (the harness defines order only within a kind and for null placement)",
                     "spill files are real files in the run's private TMPDIR; disk errors on them are not injected"],
    ),
    "C10": dict(
        engine="opsim", level="exploration", gomaxprocs=2,
        budget_s=dict(quick=30, thorough=1200),
        rule=("two kinds of run. group-by: 1..300 records whose key k is drawn from {1,2,3,1.,2.5,1(uint64),\"a\",\"b\",\"1\",null(int64),null(string),true,10.0.0.1,missing}, optional second key, "
              "program 'n:=count() [where v>0], s:=sum(v), lo:=min(v), hi:=max(v), vs:=union(v) by k[,g]' executed with groupby.DefaultLimit at its default and drawn from {1,2,3,7} (every new key beyond "
              "the limit spills the table; results are merged from spill files), each optionally on a drawn permutation of the input; oracle: the multiset of output rows equals the harness's own grouping "
              "by (type, value) of the key. join: 0..25 left and 0..25 right rows over 2/4/12 integer keys, sorted or not, inner/left/right/anti; oracle: multiset equality with a nested-loop join. "
              "Non-trivial = several groups and a lowered limit, or both join inputs non-empty."),
        real=["compiler + runtime.CompileQuery", "sam/op/groupby incl. spill.MergeSort", "sam/op/join (with the sorts the compiler inserts)", "sam/expr aggregators"],
        stub=["input (in-memory value slices and an in-memory storage.Engine for the join's second input)"],
        assumptions=["aggregates over integers only (float sums are order-dependent by rounding)", "collect() is not judged (its order is input order by design); join keys are non-null integers",
                     "declared-sorted input and partials-in/partials-out are exercised by C08's parallel legs, not here"],
    ),
    "C20": dict(
        engine="opsim", level="exploration", gomaxprocs=2,
        budget_s=dict(quick=30, thorough=1200),
        rule=("one run = 1..40 values: records over fields a,b,c,r,e,m,n (ints/strings/null, floats/bools, arrays and sets of differing element types, nested records of differing shapes and orders, "
              "errors/IPs, maps, named types and unions) in two field orders with fields omitted at random, in a quarter of runs mixed with non-record values; program 'fuse' with fuse.MemMaxBytes at "
              "default and drawn from {1,40,200} bytes (spill to a temp file). Oracle: one output per input in input order; every output has exactly the type 'fuse(this)' reports; every non-null leaf "
              "of the input is at the same path with the same type and bytes in the output, looking through unions, with set/map entries compared as multisets, and the output has no other non-null "
              "leaves; output byte-identical for every memory limit. Non-trivial = more than one distinct input type."),
        real=["compiler + runtime.CompileQuery", "sam/op/fuse incl. spill.File", "sam/expr/agg Schema/merge", "sam/expr ConstShaper"],
        stub=["input (in-memory value slices)"],
        assumptions=["error values are passed through unshaped by design and are only used as field values", "maps of differing types run under their own signature (known finding, upstream issue #2894)"],
    ),
    "C19": dict(
        engine="lakesim", level="exploration", gomaxprocs=2,
        budget_s=dict(quick=45, thorough=1500),
        rule=("one run = 2..14 operations applied to twin lakes on the real file engine under a private directory: lake A through the direct handle (lakeapi.FromRoot), lake B through "
              "service.Core behind an in-memory http.RoundTripper with api/client and lakeapi.NewRemoteLake on the other end. Operations: create/rename/remove pool, create/remove branch, load "
              "(through the interface, or a body in zng/zson/zjson/json/csv/vng or auto-detected, decoded directly the way the service decodes it), delete by object, delete-where, compact, "
              "merge, revert, add/delete vectors, vacuum, queries answered as values or as zng (with and without control frames)/zson/zjson/json/ndjson/csv bodies. Objects and commits are chosen "
              "by position, never by id. Faults (half of the runs): the client drops a query response after k bytes and asks again; an upload fails after k bytes / values; a data object is "
              "lost or truncated in both lakes under a scan. Oracle after every operation: same verdict (error or not) on both paths; same pools, branches, values, object metadata and log "
              "length; query bodies byte-identical to the directly obtained values formatted alike (or equal as multisets when the program defines no order); when the direct scan reports an "
              "error the service's client must be told (status, broken body, in-band error or the query-status endpoint); every handler has returned by the end of the run; no handler panics. "
              "Non-trivial = more than one operation."),
        real=REAL_LAKE + ["service.Core, handlers, middleware, request/response writers", "api/client, api/queryio", "lake/api local and remote", "storage.FileSystem on a private directory"],
        stub=["HTTP transport (in-memory http.RoundTripper: handler runs in-process, response body is a pipe; a closed body cancels the server's request context)", "clock (synctest bubble)"],
        assumptions=["the twins get different (seeded) object and commit ids, so ids, timestamps and id-dependent tie order are not compared",
                     "error texts are not compared, only error/no error", "authentication, CORS, events and the auxiliary routes are not exercised"],
    ),
}
