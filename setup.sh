#!/bin/bash
# Builds every engine once (warms the Go build cache under go1.26.8).  Offline.
set -e
cd "$(dirname "$0")"
export GOFLAGS=-mod=mod GOPROXY=off GOSUMDB=off GOTOOLCHAIN=local CGO_ENABLED=0
mkdir -p bin evidence replays
cat /repo/go.sum sim/go.sum.extra > sim/go.sum
for e in $(ls sim | grep sim$); do
  if ls sim/$e/*_test.go >/dev/null 2>&1; then
    (cd sim && go1.26.8 test -c -tags verif -o ../bin/$e.test ./$e/)
  fi
done
echo setup ok
