#!/bin/bash
# Runs the repository's pinned test suite with the verif guard OFF (no build
# tag) and compares the passing set with /root/.vp/BASELINE.json.
# Exit 0 iff every stable-pass test of the baseline passes and nothing fails.
set -u
out=$(mktemp -d /dev/shm/verif-baseline.XXXXXX 2>/dev/null || mktemp -d)
trap 'rm -rf "$out"' EXIT
export GOFLAGS=-mod=mod GOPROXY=off GOSUMDB=off
(cd /repo && go test -mod=mod -json -vet=off -count=1 -timeout 25m ./... > "$out/gotest.json" 2> "$out/stderr.log")
python3 - "$out/gotest.json" <<'PY'
import json, sys
passed, failed = set(), set()
for line in open(sys.argv[1], errors="replace"):
    line = line.strip()
    if not line.startswith("{"):
        continue
    try:
        ev = json.loads(line)
    except Exception:
        continue
    a, pkg, t = ev.get("Action"), ev.get("Package", ""), ev.get("Test")
    if t is None:
        if a == "fail":
            failed.add(pkg + "::[package-fail]")
        continue
    if a == "pass":
        passed.add(pkg + "::" + t)
    elif a == "fail":
        failed.add(pkg + "::" + t)
passed -= failed
base = set(json.load(open("/root/.vp/BASELINE.json"))["stable_pass"])
missing = sorted(base - passed)
print("baseline stable_pass=%d passed_now=%d failed_now=%d missing_from_baseline=%d" % (len(base), len(passed), len(failed), len(missing)))
for m in missing[:40]:
    print("  MISSING", m)
for f in sorted(failed)[:40]:
    print("  FAILED", f)
sys.exit(0 if not missing and not failed else 1)
PY
